/-
  VmMem.Props.C04 — data movement inside one container.

  Within one container every way of moving data transfers exactly the addressed
  bytes in address order, leaves every other byte unchanged, and reports the number
  of bytes/elements actually transferred = the requested amount cut off at the end of
  the accessor; a buffer/object transfer of ≥ 1 byte starting at or past the end is an
  error; all routes observe the same memory.

  Vocabulary
    * `Inside m s`   : the slice `s` lies inside the container `m`
                       (what C01.chain_in_bounds establishes for every derived accessor)
    * `MemWF m`      : the container fits the address space
    * `BmInv m`      : the tracking bitmap satisfies the invariant of C09 — the only
                       thing that keeps `mark_dirty` from indexing out of range
    * `Stored m w d bmBase off len m'` (DataLemmas): `m'` = `m` with `d` spliced in at
      container offset `w`, base unchanged, bitmap = `m.mark bmBase off len`.
  Every mutating operation is specified as `∃ m', op = .ok … ∧ Stored m w d … m'` for
  an explicit window `w`, `d`; frame, window and length facts are then the `Stored.*`
  lemmas.  Every reading operation is specified as
  `op = .ok ((m.bytes.drop w).take n)`.
-/
import VmMem.Model.Volatile
import VmMem.Lemmas.VolatileLemmas
import VmMem.Lemmas.DataLemmas
import VmMem.Props.C09
namespace VmMem
namespace C04
open VolatileLemmas DataLemmas

/-! ## §0 vocabulary -/

/-- the slice lies inside the container -/
def Inside (m : Mem) (s : VSlice) : Prop :=
  m.base ≤ s.addr ∧ s.addr + s.size ≤ m.base + m.bytes.length

/-- the container fits the address space and its length is a `usize` value -/
structure MemWF (m : Mem) : Prop where
  fits : m.base + m.bytes.length ≤ U
  len_lt : m.bytes.length < U

/-- container offset of the first byte of a slice -/
def ofs (m : Mem) (s : VSlice) : Nat := s.addr - m.base

theorem Inside.size_lt {m : Mem} {s : VSlice} (hin : Inside m s) (hwf : MemWF m) : s.size < U := by
  have := hin.1; have := hin.2; have := hwf.len_lt; omega

theorem Inside.window {m : Mem} {s : VSlice} (hin : Inside m s) :
    ofs m s + s.size ≤ m.bytes.length := by
  have := hin.1; have := hin.2; unfold ofs; omega

theorem root_inside (m : Mem) : Inside m m.root := ⟨Nat.le_refl _, Nat.le_refl _⟩

theorem isEmpty_false {buf : List UInt8} (h : buf ≠ []) : buf.isEmpty = false := by
  cases buf with
  | nil => exact absurd rfl h
  | cons a l => rfl

/-! ## §1 raw layer (re-exported from DataLemmas under the property's name) -/

theorem raw_write (m : Mem) (addr : Nat) (d : List UInt8)
    (h : m.base ≤ addr ∧ addr + d.length ≤ m.base + m.bytes.length) :
    m.writeAt addr d = .ok { m with bytes := splice m.bytes (addr - m.base) d } :=
  writeAt_ok m addr d h

theorem raw_read (m : Mem) (addr n : Nat)
    (h : m.base ≤ addr ∧ addr + n ≤ m.base + m.bytes.length) :
    m.readAt addr n = .ok ((m.bytes.drop (addr - m.base)).take n) :=
  readAt_ok m addr n h

/-- an out-of-container raw access of ≥ 1 byte is the model's rendering of UB -/
theorem raw_write_outside (m : Mem) (addr : Nat) (d : List UInt8) (hd : d ≠ [])
    (h : ¬ (m.base ≤ addr ∧ addr + d.length ≤ m.base + m.bytes.length)) :
    m.writeAt addr d = .panic := writeAt_panic m addr d hd h

theorem raw_read_outside (m : Mem) (addr n : Nat) (hn : n ≠ 0)
    (h : ¬ (m.base ≤ addr ∧ addr + n ≤ m.base + m.bytes.length)) :
    m.readAt addr n = .panic := readAt_panic m addr n hn h

/-! ## §2 `Bytes<usize> for VolatileSlice`: `write` / `read` -/

/-- an empty buffer: `Ok(0)` at any offset -/
theorem write_empty (m : Mem) (s : VSlice) (addr : Nat) : s.write m [] addr = .ok (m, 0) := rfl

/-- ≥ 1 byte starting at or past the end: `OutOfBounds` -/
theorem write_oob (m : Mem) (s : VSlice) (buf : List UInt8) (addr : Nat) (hne : buf ≠ [])
    (h : s.size ≤ addr) : s.write m buf addr = .err .outOfBounds := by
  unfold VSlice.write
  rw [isEmpty_false hne]
  have : addr ≥ s.size := h
  simp [this]

/-- in range: exactly `n = min buf.length (s.size - addr)` bytes — the front of `buf` —
    are stored at container offset `ofs + addr`, `n` is reported, and
    `mark_dirty(0, n)` goes through the bitmap slice of `s.offset(addr)`. -/
theorem write_ok (m : Mem) (s : VSlice) (buf : List UInt8) (addr : Nat)
    (hinv : BmInv m) (hwf : MemWF m) (hin : Inside m s) (hne : buf ≠ []) (h : addr < s.size) :
    ∃ m', s.write m buf addr = .ok (m', min buf.length (s.size - addr)) ∧
      Stored m (ofs m s + addr) (buf.take (min buf.length (s.size - addr)))
        (sliceAt s.bmBase addr) 0 (min buf.length (s.size - addr)) m' := by
  have h1 := hin.1; have h2 := hin.2; have h3 := hwf.fits
  have hA : s.addr + addr < U := by omega
  have hB : addr ≤ s.size := by omega
  have hge : ¬ (addr ≥ s.size) := by omega
  unfold VSlice.write
  rw [isEmpty_false hne, if_neg (by simp), if_neg hge, offset_eq, if_pos hA, if_pos hB, Res.bind_ok]
  rw [Nat.min_comm]
  have hlen : (buf.take (min buf.length (s.size - addr))).length = min buf.length (s.size - addr) := by
    rw [List.length_take]; omega
  have hwin : m.base ≤ s.addr + addr ∧
      s.addr + addr + (buf.take (min buf.length (s.size - addr))).length ≤ m.base + m.bytes.length := by
    rw [hlen]; omega
  obtain ⟨m', hok, hst⟩ := copyToVolatileSlice_spec m hinv
    { addr := s.addr + addr, size := s.size - addr, bmBase := sliceAt s.bmBase addr } buf
    (min buf.length (s.size - addr)) (Or.inr hwin)
  refine ⟨m', hok, ?_⟩
  have : ofs m s + addr = s.addr + addr - m.base := by unfold ofs; omega
  rw [this]; exact hst

/-- the three cases of `write` in one statement -/
theorem write_spec (m : Mem) (s : VSlice) (buf : List UInt8) (addr : Nat)
    (hinv : BmInv m) (hwf : MemWF m) (hin : Inside m s) :
    (buf = [] → s.write m buf addr = .ok (m, 0)) ∧
    (buf ≠ [] → s.size ≤ addr → s.write m buf addr = .err .outOfBounds) ∧
    (buf ≠ [] → addr < s.size →
      ∃ m', s.write m buf addr = .ok (m', min buf.length (s.size - addr)) ∧
        Stored m (ofs m s + addr) (buf.take (min buf.length (s.size - addr)))
          (sliceAt s.bmBase addr) 0 (min buf.length (s.size - addr)) m') :=
  ⟨fun h => by rw [h]; rfl, write_oob m s buf addr, write_ok m s buf addr hinv hwf hin⟩

/-- `write` never panics on an in-container slice -/
theorem write_no_panic (m : Mem) (s : VSlice) (buf : List UInt8) (addr : Nat)
    (hinv : BmInv m) (hwf : MemWF m) (hin : Inside m s) : s.write m buf addr ≠ .panic := by
  by_cases hne : buf = []
  · rw [hne, write_empty]; simp
  · by_cases h : addr < s.size
    · obtain ⟨m', hok, _⟩ := write_ok m s buf addr hinv hwf hin hne h
      rw [hok]; simp
    · rw [write_oob m s buf addr hne (by omega)]; simp

/-- without a tracking bitmap the result is the spliced container, outright -/
theorem write_ok_untracked (m : Mem) (s : VSlice) (buf : List UInt8) (addr : Nat)
    (hbm : m.bm = none) (hwf : MemWF m) (hin : Inside m s) (hne : buf ≠ []) (h : addr < s.size) :
    s.write m buf addr =
      .ok ({ m with bytes := (splice m.bytes (ofs m s + addr)
              (buf.take (min buf.length (s.size - addr)))) }, min buf.length (s.size - addr)) := by
  obtain ⟨m', hok, hst⟩ := write_ok m s buf addr (BmInv_none m hbm) hwf hin hne h
  rw [hok, hst.eq_of_bm_none hbm]

theorem read_zero (m : Mem) (s : VSlice) (addr : Nat) : s.read m 0 addr = .ok [] := rfl

theorem read_oob (m : Mem) (s : VSlice) (len addr : Nat) (hne : 0 < len) (h : s.size ≤ addr) :
    s.read m len addr = .err .outOfBounds := by
  unfold VSlice.read
  have h0 : ¬ len = 0 := by omega
  have : addr ≥ s.size := h
  simp [h0, this]

/-- in range: the `min len (s.size - addr)` bytes at container offset `ofs + addr`, in order -/
theorem read_ok (m : Mem) (s : VSlice) (len addr : Nat)
    (hwf : MemWF m) (hin : Inside m s) (hne : 0 < len) (h : addr < s.size) :
    s.read m len addr = .ok ((m.bytes.drop (ofs m s + addr)).take (min len (s.size - addr))) := by
  have h1 := hin.1; have h2 := hin.2; have h3 := hwf.fits
  have hA : s.addr + addr < U := by omega
  have hB : addr ≤ s.size := by omega
  have h0 : ¬ len = 0 := by omega
  have hge : ¬ (addr ≥ s.size) := by omega
  unfold VSlice.read
  rw [if_neg h0, if_neg hge, offset_eq, if_pos hA, if_pos hB, Res.bind_ok]
  unfold copyFromVolatileSlice
  rw [Nat.min_comm]
  show m.readAt (s.addr + addr) (min len (s.size - addr)) = _
  rw [readAt_ok _ _ _ (by omega)]
  have : ofs m s + addr = s.addr + addr - m.base := by unfold ofs; omega
  rw [this]

theorem read_spec (m : Mem) (s : VSlice) (len addr : Nat) (hwf : MemWF m) (hin : Inside m s) :
    (len = 0 → s.read m len addr = .ok []) ∧
    (0 < len → s.size ≤ addr → s.read m len addr = .err .outOfBounds) ∧
    (0 < len → addr < s.size →
      s.read m len addr = .ok ((m.bytes.drop (ofs m s + addr)).take (min len (s.size - addr)))) :=
  ⟨fun h => by rw [h]; rfl, read_oob m s len addr, read_ok m s len addr hwf hin⟩

/-- the number of bytes `read` returns -/
theorem read_length (m : Mem) (s : VSlice) (len addr : Nat) (hwf : MemWF m) (hin : Inside m s)
    (hne : 0 < len) (h : addr < s.size) :
    ∃ d, s.read m len addr = .ok d ∧ d.length = min len (s.size - addr) := by
  refine ⟨_, read_ok m s len addr hwf hin hne h, ?_⟩
  have := hin.window
  exact take_drop_length _ _ _ (by omega)

theorem read_no_panic (m : Mem) (s : VSlice) (len addr : Nat) (hwf : MemWF m) (hin : Inside m s) :
    s.read m len addr ≠ .panic := by
  by_cases hne : len = 0
  · rw [hne, read_zero]; simp
  · by_cases h : addr < s.size
    · rw [read_ok m s len addr hwf hin (by omega) h]; simp
    · rw [read_oob m s len addr (by omega) (by omega)]; simp

/-! ## §3 `write_slice` / `read_slice` / `write_obj` / `read_obj` -/

theorem writeSlice_empty (m : Mem) (s : VSlice) (addr : Nat) :
    s.writeSlice m [] addr = (m, .ok ()) := rfl

theorem writeSlice_oob (m : Mem) (s : VSlice) (buf : List UInt8) (addr : Nat) (hne : buf ≠ [])
    (h : s.size ≤ addr) : s.writeSlice m buf addr = (m, .err .outOfBounds) := by
  unfold VSlice.writeSlice
  rw [write_oob m s buf addr hne h]

/-- the whole buffer fits: it is stored, `Ok(())` -/
theorem writeSlice_full (m : Mem) (s : VSlice) (buf : List UInt8) (addr : Nat)
    (hinv : BmInv m) (hwf : MemWF m) (hin : Inside m s) (hne : buf ≠ []) (h : addr < s.size)
    (hfit : buf.length ≤ s.size - addr) :
    ∃ m', s.writeSlice m buf addr = (m', .ok ()) ∧
      Stored m (ofs m s + addr) buf (sliceAt s.bmBase addr) 0 buf.length m' := by
  obtain ⟨m', hok, hst⟩ := write_ok m s buf addr hinv hwf hin hne h
  have hmin : min buf.length (s.size - addr) = buf.length := by omega
  rw [hmin] at hok hst
  rw [List.take_length] at hst
  refine ⟨m', ?_, hst⟩
  unfold VSlice.writeSlice
  rw [hok]
  simp

/-- a shortfall: the prefix that fits is stored (and marked), then
    `PartialBuffer { expected, completed }` -/
theorem writeSlice_partial (m : Mem) (s : VSlice) (buf : List UInt8) (addr : Nat)
    (hinv : BmInv m) (hwf : MemWF m) (hin : Inside m s) (h : addr < s.size)
    (hshort : s.size - addr < buf.length) :
    ∃ m', s.writeSlice m buf addr = (m', .err (.partialBuffer buf.length (s.size - addr))) ∧
      Stored m (ofs m s + addr) (buf.take (s.size - addr)) (sliceAt s.bmBase addr) 0
        (s.size - addr) m' := by
  have hne : buf ≠ [] := by intro h0; rw [h0] at hshort; simp at hshort
  obtain ⟨m', hok, hst⟩ := write_ok m s buf addr hinv hwf hin hne h
  have hmin : min buf.length (s.size - addr) = s.size - addr := by omega
  rw [hmin] at hok hst
  refine ⟨m', ?_, hst⟩
  unfold VSlice.writeSlice
  rw [hok]
  have : s.size - addr ≠ buf.length := by omega
  simp [this]

/-- `write_slice` succeeds iff the buffer is empty or fits entirely -/
theorem writeSlice_ok_iff (m : Mem) (s : VSlice) (buf : List UInt8) (addr : Nat)
    (hinv : BmInv m) (hwf : MemWF m) (hin : Inside m s) :
    (s.writeSlice m buf addr).2 = .ok () ↔
      buf = [] ∨ (addr < s.size ∧ buf.length ≤ s.size - addr) := by
  by_cases hne : buf = []
  · rw [hne, writeSlice_empty]; simp
  · by_cases h : addr < s.size
    · by_cases hfit : buf.length ≤ s.size - addr
      · obtain ⟨m', hok, _⟩ := writeSlice_full m s buf addr hinv hwf hin hne h hfit
        rw [hok]; simp [h, hfit]
      · obtain ⟨m', hok, _⟩ := writeSlice_partial m s buf addr hinv hwf hin h (by omega)
        rw [hok]; simp [hne, hfit]
    · rw [writeSlice_oob m s buf addr hne (by omega)]; simp [hne, h]

/-- the error is one of the two documented ones; never a panic -/
theorem writeSlice_no_panic (m : Mem) (s : VSlice) (buf : List UInt8) (addr : Nat)
    (hinv : BmInv m) (hwf : MemWF m) (hin : Inside m s) :
    (s.writeSlice m buf addr).2 ≠ .panic := by
  by_cases hne : buf = []
  · rw [hne, writeSlice_empty]; simp
  · by_cases h : addr < s.size
    · by_cases hfit : buf.length ≤ s.size - addr
      · obtain ⟨m', hok, _⟩ := writeSlice_full m s buf addr hinv hwf hin hne h hfit
        rw [hok]; simp
      · obtain ⟨m', hok, _⟩ := writeSlice_partial m s buf addr hinv hwf hin h (by omega)
        rw [hok]; simp
    · rw [writeSlice_oob m s buf addr hne (by omega)]; simp

theorem readSlice_zero (m : Mem) (s : VSlice) (addr : Nat) : s.readSlice m 0 addr = .ok [] := rfl

theorem readSlice_oob (m : Mem) (s : VSlice) (len addr : Nat) (hne : 0 < len) (h : s.size ≤ addr) :
    s.readSlice m len addr = .err .outOfBounds := by
  unfold VSlice.readSlice
  rw [read_oob m s len addr hne h]; rfl

theorem readSlice_full (m : Mem) (s : VSlice) (len addr : Nat) (hwf : MemWF m) (hin : Inside m s)
    (hne : 0 < len) (h : addr < s.size) (hfit : len ≤ s.size - addr) :
    s.readSlice m len addr = .ok ((m.bytes.drop (ofs m s + addr)).take len) := by
  unfold VSlice.readSlice
  rw [read_ok m s len addr hwf hin hne h, Res.bind_ok]
  have hmin : min len (s.size - addr) = len := by omega
  rw [hmin]
  have := hin.window
  have hl := take_drop_length m.bytes (ofs m s + addr) len (by omega)
  rw [hl]
  simp

theorem readSlice_partial (m : Mem) (s : VSlice) (len addr : Nat) (hwf : MemWF m)
    (hin : Inside m s) (h : addr < s.size) (hshort : s.size - addr < len) :
    s.readSlice m len addr = .err (.partialBuffer len (s.size - addr)) := by
  unfold VSlice.readSlice
  rw [read_ok m s len addr hwf hin (by omega) h, Res.bind_ok]
  have hmin : min len (s.size - addr) = s.size - addr := by omega
  rw [hmin]
  have := hin.window
  have hl := take_drop_length m.bytes (ofs m s + addr) (s.size - addr) (by omega)
  rw [hl]
  have : s.size - addr ≠ len := by omega
  simp [this]

theorem readSlice_ok_iff (m : Mem) (s : VSlice) (len addr : Nat) (hwf : MemWF m) (hin : Inside m s) :
    (s.readSlice m len addr).isOk = true ↔ len = 0 ∨ (addr < s.size ∧ len ≤ s.size - addr) := by
  by_cases hne : len = 0
  · rw [hne, readSlice_zero]; simp [Res.isOk]
  · by_cases h : addr < s.size
    · by_cases hfit : len ≤ s.size - addr
      · rw [readSlice_full m s len addr hwf hin (by omega) h hfit]; simp [Res.isOk, h, hfit]
      · rw [readSlice_partial m s len addr hwf hin h (by omega)]; simp [Res.isOk, hne, hfit]
    · rw [readSlice_oob m s len addr (by omega) (by omega)]; simp [Res.isOk, hne, h]

theorem readSlice_no_panic (m : Mem) (s : VSlice) (len addr : Nat) (hwf : MemWF m)
    (hin : Inside m s) : s.readSlice m len addr ≠ .panic := by
  by_cases hne : len = 0
  · rw [hne, readSlice_zero]; simp
  · by_cases h : addr < s.size
    · by_cases hfit : len ≤ s.size - addr
      · rw [readSlice_full m s len addr hwf hin (by omega) h hfit]; simp
      · rw [readSlice_partial m s len addr hwf hin h (by omega)]; simp
    · rw [readSlice_oob m s len addr (by omega) (by omega)]; simp

/-- `write_obj` / `read_obj` are `write_slice` / `read_slice` of the object's bytes -/
theorem writeObj_eq (m : Mem) (s : VSlice) (val : List UInt8) (addr : Nat) :
    s.writeObj m val addr = s.writeSlice m val addr := rfl
theorem readObj_eq (m : Mem) (s : VSlice) (t : Ty) (addr : Nat) :
    s.readObj m t addr = s.readSlice m t.size addr := rfl

/-! ## §4 `store` / `load` (aligned, atomic access of `size_of::<T>()` bytes) -/

theorem _root_.VmMem.DataLemmas.Stored.inside {m m' : Mem} {w : Nat} {d : List UInt8} {b o l : Nat}
    (h : Stored m w d b o l m') {s : VSlice} (hin : Inside m s) : Inside m' s := by
  unfold Inside; rw [h.base, h.length_eq]; exact hin

theorem _root_.VmMem.DataLemmas.Stored.memWF {m m' : Mem} {w : Nat} {d : List UInt8} {b o l : Nat}
    (h : Stored m w d b o l m') (hwf : MemWF m) : MemWF m' :=
  ⟨by rw [h.base, h.length_eq]; exact hwf.fits, by rw [h.length_eq]; exact hwf.len_lt⟩

theorem _root_.VmMem.DataLemmas.Stored.ofs_eq {m m' : Mem} {w : Nat} {d : List UInt8} {b o l : Nat}
    (h : Stored m w d b o l m') (s : VSlice) : ofs m' s = ofs m s := by
  unfold ofs; rw [h.base]

/-- in range and aligned: the first `size_of::<T>()` bytes of the value's image are stored
    at `ofs + addr`, `mark_dirty(addr, size_of::<T>())` goes through the slice's own bitmap -/
theorem store_ok (m : Mem) (s : VSlice) (val : List UInt8) (t : Ty) (addr : Nat)
    (hinv : BmInv m) (hwf : MemWF m) (hin : Inside m s)
    (hfit : addr + t.size ≤ s.size) (hal : (s.addr + addr) % t.align = 0) :
    ∃ m', s.store m val t addr = .ok m' ∧
      Stored m (ofs m s + addr) (val.take t.size) s.bmBase addr t.size m' := by
  have h1 := hin.1; have h2 := hin.2; have h3 := hin.size_lt hwf
  have hU : addr + t.size < U := by omega
  unfold VSlice.store
  rw [alignedRef_eq, if_pos hU, if_pos hfit, if_pos hal, Res.bind_ok]
  have hlen : (val.take t.size).length ≤ t.size := by rw [List.length_take]; omega
  obtain ⟨m', hok, hst⟩ := store_core m hinv (s.addr + addr) (val.take t.size) s.bmBase addr t.size
    (Or.inr (by omega))
  refine ⟨m', hok, ?_⟩
  have : ofs m s + addr = s.addr + addr - m.base := by unfold ofs; omega
  rw [this]; exact hst

theorem store_misaligned (m : Mem) (s : VSlice) (val : List UInt8) (t : Ty) (addr : Nat)
    (hU : addr + t.size < U) (hfit : addr + t.size ≤ s.size) (hal : (s.addr + addr) % t.align ≠ 0) :
    s.store m val t addr = .err .misaligned := by
  unfold VSlice.store
  rw [alignedRef_eq, if_pos hU, if_pos hfit, if_neg hal]; rfl

theorem store_oob (m : Mem) (s : VSlice) (val : List UInt8) (t : Ty) (addr : Nat)
    (hU : addr + t.size < U) (hfit : s.size < addr + t.size) :
    s.store m val t addr = .err .outOfBounds := by
  unfold VSlice.store
  rw [alignedRef_eq, if_pos hU, if_neg (by omega)]; rfl

theorem store_overflow (m : Mem) (s : VSlice) (val : List UInt8) (t : Ty) (addr : Nat)
    (hU : U ≤ addr + t.size) : s.store m val t addr = .err .overflow := by
  unfold VSlice.store
  rw [alignedRef_eq, if_neg (by omega)]; rfl

/-- `store` succeeds iff the object fits the slice and its address is aligned -/
theorem store_ok_iff (m : Mem) (s : VSlice) (val : List UInt8) (t : Ty) (addr : Nat)
    (hinv : BmInv m) (hwf : MemWF m) (hin : Inside m s) :
    (s.store m val t addr).isOk = true ↔
      addr + t.size ≤ s.size ∧ (s.addr + addr) % t.align = 0 := by
  have h3 := hin.size_lt hwf
  by_cases hfit : addr + t.size ≤ s.size
  · by_cases hal : (s.addr + addr) % t.align = 0
    · obtain ⟨m', hok, _⟩ := store_ok m s val t addr hinv hwf hin hfit hal
      rw [hok]; simp [Res.isOk, hfit, hal]
    · rw [store_misaligned m s val t addr (by omega) hfit hal]; simp [Res.isOk, hal]
  · by_cases hU : addr + t.size < U
    · rw [store_oob m s val t addr hU (by omega)]; simp [Res.isOk, hfit]
    · rw [store_overflow m s val t addr (by omega)]; simp [Res.isOk, hfit]

theorem store_no_panic (m : Mem) (s : VSlice) (val : List UInt8) (t : Ty) (addr : Nat)
    (hinv : BmInv m) (hwf : MemWF m) (hin : Inside m s) : s.store m val t addr ≠ .panic := by
  have h3 := hin.size_lt hwf
  by_cases hfit : addr + t.size ≤ s.size
  · by_cases hal : (s.addr + addr) % t.align = 0
    · obtain ⟨m', hok, _⟩ := store_ok m s val t addr hinv hwf hin hfit hal
      rw [hok]; simp
    · rw [store_misaligned m s val t addr (by omega) hfit hal]; simp
  · by_cases hU : addr + t.size < U
    · rw [store_oob m s val t addr hU (by omega)]; simp
    · rw [store_overflow m s val t addr (by omega)]; simp

theorem load_ok (m : Mem) (s : VSlice) (t : Ty) (addr : Nat) (hwf : MemWF m) (hin : Inside m s)
    (hfit : addr + t.size ≤ s.size) (hal : (s.addr + addr) % t.align = 0) :
    s.load m t addr = .ok ((m.bytes.drop (ofs m s + addr)).take t.size) := by
  have h1 := hin.1; have h2 := hin.2; have h3 := hin.size_lt hwf
  have hU : addr + t.size < U := by omega
  unfold VSlice.load
  rw [alignedRef_eq, if_pos hU, if_pos hfit, if_pos hal, Res.bind_ok, readAt_ok _ _ _ (by omega)]
  have : ofs m s + addr = s.addr + addr - m.base := by unfold ofs; omega
  rw [this]

theorem load_misaligned (m : Mem) (s : VSlice) (t : Ty) (addr : Nat)
    (hU : addr + t.size < U) (hfit : addr + t.size ≤ s.size) (hal : (s.addr + addr) % t.align ≠ 0) :
    s.load m t addr = .err .misaligned := by
  unfold VSlice.load
  rw [alignedRef_eq, if_pos hU, if_pos hfit, if_neg hal]; rfl

theorem load_oob (m : Mem) (s : VSlice) (t : Ty) (addr : Nat)
    (hU : addr + t.size < U) (hfit : s.size < addr + t.size) :
    s.load m t addr = .err .outOfBounds := by
  unfold VSlice.load
  rw [alignedRef_eq, if_pos hU, if_neg (by omega)]; rfl

theorem load_overflow (m : Mem) (s : VSlice) (t : Ty) (addr : Nat)
    (hU : U ≤ addr + t.size) : s.load m t addr = .err .overflow := by
  unfold VSlice.load
  rw [alignedRef_eq, if_neg (by omega)]; rfl

theorem load_ok_iff (m : Mem) (s : VSlice) (t : Ty) (addr : Nat) (hwf : MemWF m) (hin : Inside m s) :
    (s.load m t addr).isOk = true ↔
      addr + t.size ≤ s.size ∧ (s.addr + addr) % t.align = 0 := by
  have h3 := hin.size_lt hwf
  by_cases hfit : addr + t.size ≤ s.size
  · by_cases hal : (s.addr + addr) % t.align = 0
    · rw [load_ok m s t addr hwf hin hfit hal]; simp [Res.isOk, hfit, hal]
    · rw [load_misaligned m s t addr (by omega) hfit hal]; simp [Res.isOk, hal]
  · by_cases hU : addr + t.size < U
    · rw [load_oob m s t addr hU (by omega)]; simp [Res.isOk, hfit]
    · rw [load_overflow m s t addr (by omega)]; simp [Res.isOk, hfit]

theorem load_no_panic (m : Mem) (s : VSlice) (t : Ty) (addr : Nat) (hwf : MemWF m)
    (hin : Inside m s) : s.load m t addr ≠ .panic := by
  have h3 := hin.size_lt hwf
  by_cases hfit : addr + t.size ≤ s.size
  · by_cases hal : (s.addr + addr) % t.align = 0
    · rw [load_ok m s t addr hwf hin hfit hal]; simp
    · rw [load_misaligned m s t addr (by omega) hfit hal]; simp
  · by_cases hU : addr + t.size < U
    · rw [load_oob m s t addr hU (by omega)]; simp
    · rw [load_overflow m s t addr (by omega)]; simp

/-! ## §5 `VolatileRef` / `VolatileArrayRef` element access -/

/-- the array lies inside the container -/
def AInside (m : Mem) (a : VArr) : Prop :=
  m.base ≤ a.addr ∧ a.addr + a.nelem * a.ty.size ≤ m.base + m.bytes.length

/-- `VolatileRef::store`: the `size_of::<T>()` bytes at the reference, `mark_dirty(0, size)` -/
theorem ref_store_ok (m : Mem) (r : VRef) (val : List UInt8) (hinv : BmInv m)
    (hin : Inside m r.toSlice) :
    ∃ m', r.store m val = .ok m' ∧
      Stored m (r.addr - m.base) (val.take r.ty.size) r.bmBase 0 r.ty.size m' := by
  have h1 : m.base ≤ r.addr := hin.1
  have h2 : r.addr + r.ty.size ≤ m.base + m.bytes.length := hin.2
  have hlen : (val.take r.ty.size).length ≤ r.ty.size := by rw [List.length_take]; omega
  unfold VRef.store
  exact store_core m hinv r.addr (val.take r.ty.size) r.bmBase 0 r.ty.size (Or.inr (by omega))

theorem ref_load_ok (m : Mem) (r : VRef) (hin : Inside m r.toSlice) :
    r.load m = .ok ((m.bytes.drop (r.addr - m.base)).take r.ty.size) := by
  have h1 : m.base ≤ r.addr := hin.1
  have h2 : r.addr + r.ty.size ≤ m.base + m.bytes.length := hin.2
  unfold VRef.load
  exact readAt_ok _ _ _ ⟨h1, h2⟩

/-- a reference obtained by `get_ref` designates the bytes `[ofs + off, ofs + off + size)` -/
theorem getRef_inside {m : Mem} {s : VSlice} {r : VRef} {off : Nat} {t : Ty}
    (hin : Inside m s) (h : s.getRef off t = .ok r) :
    Inside m r.toSlice ∧ r.addr - m.base = ofs m s + off ∧ r.ty = t := by
  obtain ⟨_, hle, ha, ht, _⟩ := getRef_ok h
  have h1 := hin.1; have h2 := hin.2
  refine ⟨⟨?_, ?_⟩, ?_, ht⟩
  · show m.base ≤ r.addr; omega
  · show r.addr + r.ty.size ≤ _; rw [ht]; omega
  · unfold ofs; omega

theorem elem_lt_U {sz i n : Nat} (hi : i < n) (hlt : n * sz < U) : sz * i < U := by
  have := @elem_ofs_le sz i n hi
  omega

/-- element `i` of an in-container array designates `[o + size*i, o + size*i + size)` -/
theorem refAt_inside {m : Mem} {a : VArr} (hwf : MemWF m) (hin : AInside m a) {i : Nat}
    (hi : i < a.nelem) :
    ∃ r, a.refAt i = .ok r ∧ Inside m r.toSlice ∧
      r.addr - m.base = a.addr - m.base + a.ty.size * i ∧ r.ty = a.ty ∧
      r.bmBase = sliceAt a.bmBase (a.ty.size * i) := by
  have h1 := hin.1; have h2 := hin.2; have h3 := hwf.len_lt
  have he := @elem_end_le a.ty.size i a.nelem hi
  have hlt : a.ty.size * i < U := by omega
  refine ⟨_, by rw [refAt_eq, if_pos hi, if_pos hlt], ⟨?_, ?_⟩, ?_, rfl, rfl⟩
  · show m.base ≤ a.addr + a.ty.size * i; omega
  · show a.addr + a.ty.size * i + a.ty.size ≤ _; omega
  · show a.addr + a.ty.size * i - m.base = _; omega

/-- `VolatileArrayRef::store(i, v)`, `i < nelem`: element `i`, nothing else -/
theorem arr_store_ok (m : Mem) (a : VArr) (i : Nat) (val : List UInt8) (hinv : BmInv m)
    (hwf : MemWF m) (hin : AInside m a) (hi : i < a.nelem) :
    ∃ m', a.store m i val = .ok m' ∧
      Stored m (a.addr - m.base + a.ty.size * i) (val.take a.ty.size)
        (sliceAt a.bmBase (a.ty.size * i)) 0 a.ty.size m' := by
  obtain ⟨r, hr, hrin, hro, hrt, hrb⟩ := refAt_inside hwf hin hi
  obtain ⟨m', hok, hst⟩ := ref_store_ok m r val hinv hrin
  refine ⟨m', ?_, ?_⟩
  · unfold VArr.store; rw [hr, Res.bind_ok]; exact hok
  · rw [hro, hrt, hrb] at hst; exact hst

theorem arr_load_ok (m : Mem) (a : VArr) (i : Nat) (hwf : MemWF m) (hin : AInside m a)
    (hi : i < a.nelem) :
    a.load m i = .ok ((m.bytes.drop (a.addr - m.base + a.ty.size * i)).take a.ty.size) := by
  obtain ⟨r, hr, hrin, hro, hrt, _⟩ := refAt_inside hwf hin hi
  unfold VArr.load
  rw [hr, Res.bind_ok, ref_load_ok m r hrin, hro, hrt]

/-- `assert!(index < self.nelem)` -/
theorem arr_store_index (m : Mem) (a : VArr) (i : Nat) (val : List UInt8) (hi : a.nelem ≤ i) :
    a.store m i val = .panic := by
  unfold VArr.store
  rw [refAt_eq, if_neg (by omega)]; rfl

theorem arr_load_index (m : Mem) (a : VArr) (i : Nat) (hi : a.nelem ≤ i) : a.load m i = .panic := by
  unfold VArr.load
  rw [refAt_eq, if_neg (by omega)]; rfl

/-- element access panics iff the index assertion fails -/
theorem arr_store_panic_iff (m : Mem) (a : VArr) (i : Nat) (val : List UInt8) (hinv : BmInv m)
    (hwf : MemWF m) (hin : AInside m a) : a.store m i val = .panic ↔ a.nelem ≤ i := by
  constructor
  · intro h
    by_cases hi : i < a.nelem
    · obtain ⟨m', hok, _⟩ := arr_store_ok m a i val hinv hwf hin hi
      rw [hok] at h; cases h
    · omega
  · exact arr_store_index m a i val

theorem arr_load_panic_iff (m : Mem) (a : VArr) (i : Nat) (hwf : MemWF m) (hin : AInside m a) :
    a.load m i = .panic ↔ a.nelem ≤ i := by
  constructor
  · intro h
    by_cases hi : i < a.nelem
    · rw [arr_load_ok m a i hwf hin hi] at h; cases h
    · omega
  · exact arr_load_index m a i

/-! ## §6 bulk element copies: `VolatileArrayRef::copy_to / copy_from` -/

/-- `copy_to(buf)`: `min(buf.len(), nelem)` whole elements, i.e. the first
    `count * size_of::<T>()` bytes of the array, in order; the count is reported.
    One statement for the byte fast path and the element loop. -/
theorem arr_copyTo_ok (m : Mem) (a : VArr) (blen : Nat) (hwf : MemWF m) (hin : AInside m a) :
    a.copyTo m blen =
      .ok (min blen a.nelem, (m.bytes.drop (a.addr - m.base)).take (min blen a.nelem * a.ty.size)) := by
  have h1 := hin.1; have h2 := hin.2; have h3 := hwf.len_lt
  have hk : min blen a.nelem * a.ty.size ≤ a.nelem * a.ty.size :=
    Nat.mul_le_mul_right _ (Nat.min_le_right _ _)
  unfold VArr.copyTo
  by_cases hs : a.ty.size = 1
  · rw [if_pos hs, arrToSlice_eq, if_pos (by omega), Res.bind_ok]
    dsimp only
    unfold copyFromVolatileSlice
    dsimp only
    rw [hs, Nat.mul_one] at hk h2 ⊢
    rw [Nat.mul_one, readAt_ok _ _ _ (by omega)]
    rfl
  · rw [if_neg hs]
    dsimp only
    rw [readAt_ok _ _ _ (by omega)]
    rfl

/-- `copy_from(buf)`: the first `count * size_of::<T>()` bytes of the buffer image are
    stored at the start of the array; `mark_dirty(0, count * size)` -/
theorem arr_copyFrom_ok (m : Mem) (a : VArr) (blen : Nat) (buf : List UInt8) (hinv : BmInv m)
    (hwf : MemWF m) (hin : AInside m a) :
    ∃ m', a.copyFrom m blen buf = .ok m' ∧
      Stored m (a.addr - m.base) (buf.take (min blen a.nelem * a.ty.size)) a.bmBase 0
        (min blen a.nelem * a.ty.size) m' := by
  have h1 := hin.1; have h2 := hin.2; have h3 := hwf.len_lt
  have hk : min blen a.nelem * a.ty.size ≤ a.nelem * a.ty.size :=
    Nat.mul_le_mul_right _ (Nat.min_le_right _ _)
  have hlen : (buf.take (min blen a.nelem * a.ty.size)).length ≤ min blen a.nelem * a.ty.size := by
    rw [List.length_take]; omega
  unfold VArr.copyFrom
  by_cases hs : a.ty.size = 1
  · rw [if_pos hs, arrToSlice_eq, if_pos (by omega), Res.bind_ok]
    dsimp only
    rw [hs, Nat.mul_one] at hk h2 hlen ⊢
    rw [Nat.mul_one]
    obtain ⟨m', hok, hst⟩ := copyToVolatileSlice_spec m hinv
      { addr := a.addr, size := a.nelem, bmBase := a.bmBase } buf (min blen a.nelem)
      (Or.inr ⟨h1, by show a.addr + _ ≤ _; omega⟩)
    rw [hok]
    exact ⟨m', rfl, hst⟩
  · rw [if_neg hs]
    dsimp only
    exact store_core m hinv a.addr _ a.bmBase 0 _ (Or.inr (by omega))

/-- the number of elements and bytes an array copy moves -/
theorem arr_copyTo_count (m : Mem) (a : VArr) (blen : Nat) (hwf : MemWF m) (hin : AInside m a) :
    ∃ d, a.copyTo m blen = .ok (min blen a.nelem, d) ∧ d.length = min blen a.nelem * a.ty.size := by
  refine ⟨_, arr_copyTo_ok m a blen hwf hin, ?_⟩
  have h1 := hin.1; have h2 := hin.2
  have hk : min blen a.nelem * a.ty.size ≤ a.nelem * a.ty.size :=
    Nat.mul_le_mul_right _ (Nat.min_le_right _ _)
  exact take_drop_length _ _ _ (by omega)

/-! ## §7 `VolatileSlice::copy_to / copy_from::<T>` -/

theorem elemCount_one (s : VSlice) (t : Ty) (blen : Nat) (h : t.size = 1) :
    s.elemCount t blen = s.size := by
  unfold VSlice.elemCount; rw [if_neg (by omega), h, Nat.div_one]

theorem elemCount_pos (s : VSlice) (t : Ty) (blen : Nat) (h : t.size ≠ 0) :
    s.elemCount t blen = s.size / t.size := by
  unfold VSlice.elemCount; rw [if_neg h]

theorem elemCount_zero (s : VSlice) (t : Ty) (blen : Nat) (h : t.size = 0) :
    s.elemCount t blen = blen := by
  unfold VSlice.elemCount; rw [if_pos h]

/-- the elements counted fit the slice -/
theorem elemCount_mul_le (s : VSlice) (t : Ty) (blen : Nat) :
    s.elemCount t blen * t.size ≤ s.size := by
  unfold VSlice.elemCount
  by_cases h : t.size = 0
  · rw [if_pos h, h, Nat.mul_zero]; exact Nat.zero_le _
  · rw [if_neg h]; exact Nat.div_mul_le_self _ _

/-- the array view `copy_to / copy_from::<T>` unwrap: it exists (no panic) whenever the
    slice length is an `isize` value and, for a zero-sized `T`, so is `buf.len()` -/
theorem elem_array (s : VSlice) (t : Ty) (blen : Nat) (hsz : s.size ≤ ISIZE_MAX)
    (hb : t.size = 0 → blen ≤ ISIZE_MAX) :
    Res.unwrapRes (s.getArrayRef 0 (s.elemCount t blen) t) =
      .ok { addr := s.addr + 0, nelem := s.elemCount t blen, bmBase := sliceAt s.bmBase 0, ty := t } := by
  have hm := elemCount_mul_le s t blen
  have hI := ISIZE_MAX_lt_U
  have hc : s.elemCount t blen ≤ ISIZE_MAX := by
    by_cases h : t.size = 0
    · rw [elemCount_zero s t blen h]; exact hb h
    · rw [elemCount_pos s t blen h]
      exact Nat.le_trans (Nat.div_le_self _ _) hsz
  rw [getArrayRef_eq, if_pos ⟨hc, by omega⟩, if_pos (by omega), if_pos (by omega)]
  rfl

/-- `copy_to::<T>(buf)`: `count = min(buf.len(), elemCount)` elements — for a one-byte `T`
    `min(buf.len(), size)`, for `size_of::<T>() ≥ 2` `min(buf.len(), size / size_of::<T>())`,
    for a zero-sized `T` all of `buf.len()` — i.e. the first `count * size_of::<T>()` bytes of
    the slice, in order.  Never a panic. -/
theorem copyTo_ok (m : Mem) (s : VSlice) (t : Ty) (blen : Nat) (hwf : MemWF m) (hin : Inside m s)
    (hsz : s.size ≤ ISIZE_MAX) (hb : t.size = 0 → blen ≤ ISIZE_MAX) :
    s.copyTo m t blen =
      .ok (min blen (s.elemCount t blen),
           (m.bytes.drop (ofs m s)).take (min blen (s.elemCount t blen) * t.size)) := by
  have h1 := hin.1; have h2 := hin.2
  unfold VSlice.copyTo
  by_cases hs : t.size = 1
  · rw [if_pos hs, elemCount_one s t blen hs, hs, Nat.mul_one]
    dsimp only
    unfold copyFromVolatileSlice
    rw [readAt_ok _ _ _ (by omega)]
    rfl
  · rw [if_neg hs, elem_array s t blen hsz hb, Res.bind_ok]
    have hm := elemCount_mul_le s t blen
    rw [arr_copyTo_ok m _ blen hwf ⟨by show m.base ≤ s.addr + 0; omega,
      by show s.addr + 0 + s.elemCount t blen * t.size ≤ _; omega⟩]
    show Res.ok (_, (m.bytes.drop (s.addr + 0 - m.base)).take _) = _
    rw [Nat.add_zero]; rfl

/-- `copy_from::<T>(buf)`: the first `count * size_of::<T>()` bytes of the buffer image are
    stored at the start of the slice and marked -/
theorem copyFrom_ok (m : Mem) (s : VSlice) (t : Ty) (blen : Nat) (buf : List UInt8)
    (hinv : BmInv m) (hwf : MemWF m) (hin : Inside m s)
    (hsz : s.size ≤ ISIZE_MAX) (hb : t.size = 0 → blen ≤ ISIZE_MAX) :
    ∃ m', s.copyFrom m t blen buf = .ok m' ∧
      Stored m (ofs m s) (buf.take (min blen (s.elemCount t blen) * t.size)) s.bmBase 0
        (min blen (s.elemCount t blen) * t.size) m' := by
  have h1 := hin.1; have h2 := hin.2
  unfold VSlice.copyFrom
  by_cases hs : t.size = 1
  · rw [if_pos hs, elemCount_one s t blen hs, hs, Nat.mul_one]
    dsimp only
    have hlen : (buf.take (min blen s.size)).length ≤ min blen s.size := by
      rw [List.length_take]; omega
    obtain ⟨m', hok, hst⟩ := copyToVolatileSlice_spec m hinv s buf (min blen s.size)
      (Or.inr ⟨h1, by omega⟩)
    rw [hok]
    exact ⟨m', rfl, hst⟩
  · rw [if_neg hs, elem_array s t blen hsz hb, Res.bind_ok]
    have hm := elemCount_mul_le s t blen
    obtain ⟨m', hok, hst⟩ := arr_copyFrom_ok m
      { addr := s.addr + 0, nelem := s.elemCount t blen, bmBase := sliceAt s.bmBase 0, ty := t }
      blen buf hinv hwf ⟨by show m.base ≤ s.addr + 0; omega,
        by show s.addr + 0 + s.elemCount t blen * t.size ≤ _; omega⟩
    refine ⟨m', hok, ?_⟩
    have hst' : Stored m (s.addr + 0 - m.base) (buf.take (min blen (s.elemCount t blen) * t.size))
        (sliceAt s.bmBase 0) 0 (min blen (s.elemCount t blen) * t.size) m' := hst
    rw [Nat.add_zero] at hst'
    obtain ⟨hby, hlen, hwin, hba, hi, m0, hm0, hbm⟩ := hst'
    exact ⟨hby, hlen, hwin, hba, hi, m0, by rw [← mark_sliceAt_zero]; exact hm0, hbm⟩

/-- without the `isize` bound on a zero-sized-element buffer the `.unwrap()` fires -/
theorem copyTo_zst_too_big (m : Mem) (s : VSlice) (t : Ty) (blen : Nat) (h0 : t.size = 0)
    (hb : ISIZE_MAX < blen) : s.copyTo m t blen = .panic := by
  unfold VSlice.copyTo
  rw [if_neg (by omega), elemCount_zero s t blen h0, getArrayRef_eq, if_neg (by omega)]
  rfl

/-! ## §8 slice-to-slice copies (`ptr::copy`, memmove semantics) -/

/-- `copy_to_volatile_slice(dst)`: `count = min(self.size, dst.size)` bytes; what is stored
    at `dst` is what the source held in the ORIGINAL container (overlap-safe), in order -/
theorem copyToSlice_ok (m : Mem) (s dst : VSlice) (hinv : BmInv m) (hin : Inside m s)
    (hdst : Inside m dst) :
    ∃ m', s.copyToSlice m dst = .ok m' ∧
      Stored m (ofs m dst) ((m.bytes.drop (ofs m s)).take (min s.size dst.size)) dst.bmBase 0
        (min s.size dst.size) m' := by
  have h1 := hin.1; have h2 := hin.2; have h3 := hdst.1; have h4 := hdst.2
  have hl : ((m.bytes.drop (ofs m s)).take (min s.size dst.size)).length = min s.size dst.size :=
    take_drop_length _ _ _ (by unfold ofs; omega)
  unfold VSlice.copyToSlice
  dsimp only
  rw [readAt_ok _ _ _ (by omega), Res.bind_ok]
  exact store_core m hinv dst.addr _ dst.bmBase 0 _ (Or.inr (by unfold ofs at hl; omega))

/-- `VolatileArrayRef::copy_to_volatile_slice(dst)` -/
theorem arr_copyToSlice_ok (m : Mem) (a : VArr) (dst : VSlice) (hinv : BmInv m) (hwf : MemWF m)
    (hin : AInside m a) (hdst : Inside m dst) :
    ∃ m', a.copyToSlice m dst = .ok m' ∧
      Stored m (ofs m dst) ((m.bytes.drop (a.addr - m.base)).take (min (a.nelem * a.ty.size) dst.size))
        dst.bmBase 0 (min (a.nelem * a.ty.size) dst.size) m' := by
  have h1 := hin.1; have h2 := hin.2; have h3 := hdst.1; have h4 := hdst.2; have h5 := hwf.len_lt
  have hl : ((m.bytes.drop (a.addr - m.base)).take (min (a.nelem * a.ty.size) dst.size)).length
      = min (a.nelem * a.ty.size) dst.size := take_drop_length _ _ _ (by omega)
  unfold VArr.copyToSlice
  rw [mulP_of_lt (by omega), Res.bind_ok]
  dsimp only
  rw [readAt_ok _ _ _ (by omega), Res.bind_ok]
  exact store_core m hinv dst.addr _ dst.bmBase 0 _ (Or.inr (by omega))

/-- a slice copied onto itself changes no byte -/
theorem copyToSlice_self_bytes (m : Mem) (s : VSlice) (hinv : BmInv m) (hin : Inside m s) :
    ∃ m', s.copyToSlice m s = .ok m' ∧ m'.bytes = m.bytes := by
  obtain ⟨m', hok, hst⟩ := copyToSlice_ok m s s hinv hin hin
  refine ⟨m', hok, ?_⟩
  rw [hst.bytes, Nat.min_self]
  exact splice_self _ _ _ hin.window

/-! ## §9 frame: every mutating operation changes only its window

  Every mutating operation above concludes `Stored m w d … m'`, hence
  `Stored.frame`, `Stored.window`, `Stored.length`, `Stored.base` apply to it. The
  schema, spelled out once for the property's wording: -/

/-- bytes outside the addressed window are unchanged; the window holds the data in
    address order; length and base are unchanged -/
theorem frame {m m' : Mem} {w : Nat} {d : List UInt8} {b o l : Nat} (h : Stored m w d b o l m') :
    (∀ i, i < w ∨ w + d.length ≤ i → m'.bytes[i]? = m.bytes[i]?) ∧
    (∀ i, i < d.length → m'.bytes[w + i]? = d[i]?) ∧
    m'.bytes.length = m.bytes.length ∧ m'.base = m.base :=
  ⟨h.frame, h.window, h.length_eq, h.base⟩

/-- e.g. for `write`: nothing outside `[ofs + addr, ofs + addr + n)` changes -/
theorem write_frame (m : Mem) (s : VSlice) (buf : List UInt8) (addr : Nat)
    (hinv : BmInv m) (hwf : MemWF m) (hin : Inside m s) (hne : buf ≠ []) (h : addr < s.size) :
    ∃ m' n, s.write m buf addr = .ok (m', n) ∧ n = min buf.length (s.size - addr) ∧
      (∀ i, i < ofs m s + addr ∨ ofs m s + addr + n ≤ i → m'.bytes[i]? = m.bytes[i]?) ∧
      (∀ i, i < n → m'.bytes[ofs m s + addr + i]? = buf[i]?) ∧
      m'.bytes.length = m.bytes.length ∧ m'.base = m.base := by
  obtain ⟨m', hok, hst⟩ := write_ok m s buf addr hinv hwf hin hne h
  have hl : (buf.take (min buf.length (s.size - addr))).length = min buf.length (s.size - addr) := by
    rw [List.length_take]; omega
  refine ⟨m', _, hok, rfl, ?_, ?_, hst.length_eq, hst.base⟩
  · intro i hi; exact hst.frame i (by rw [hl]; exact hi)
  · intro i hi
    rw [hst.window i (by rw [hl]; exact hi), List.getElem?_take, if_pos hi]

/-- no write through a slice touches a byte outside that slice -/
theorem write_confined (m : Mem) (s : VSlice) (buf : List UInt8) (addr : Nat)
    (hinv : BmInv m) (hwf : MemWF m) (hin : Inside m s) (hne : buf ≠ []) (h : addr < s.size) :
    ∃ m' n, s.write m buf addr = .ok (m', n) ∧
      ∀ i, i < ofs m s ∨ ofs m s + s.size ≤ i → m'.bytes[i]? = m.bytes[i]? := by
  obtain ⟨m', n, hok, hn, hfr, _⟩ := write_frame m s buf addr hinv hwf hin hne h
  exact ⟨m', n, hok, fun i hi => hfr i (by omega)⟩

/-! ## §10 all routes observe the same memory -/

/-- the raw statement: if `m'` holds `d` at window `w`, a raw read of that window is `d` -/
theorem routes_agree {m m' : Mem} {w : Nat} {d : List UInt8}
    (hb : m'.bytes = splice m.bytes w d) (hbase : m'.base = m.base)
    (hw : w + d.length ≤ m.bytes.length) : m'.readAt (m.base + w) d.length = .ok d :=
  readAt_of_splice hb hbase hw

theorem routes_agree_disjoint {m m' : Mem} {w : Nat} {d : List UInt8}
    (hb : m'.bytes = splice m.bytes w d) (hbase : m'.base = m.base)
    (hw : w + d.length ≤ m.bytes.length) (w' n : Nat) (hw' : w' + n ≤ m.bytes.length)
    (hd : w' + n ≤ w ∨ w + d.length ≤ w') :
    m'.readAt (m.base + w') n = m.readAt (m.base + w') n :=
  readAt_of_splice_disjoint hb hbase hw w' n hw' hd

theorem _root_.VmMem.DataLemmas.Stored.ainside {m m' : Mem} {w : Nat} {d : List UInt8} {b o l : Nat}
    (h : Stored m w d b o l m') {a : VArr} (hin : AInside m a) : AInside m' a := by
  unfold AInside; rw [h.base, h.length_eq]; exact hin

section sees
variable {m m' : Mem} {w : Nat} {d : List UInt8} {b o l : Nat}

/-- whatever operation stored `d` at window `w` (`hst`), `read` through ANY slice whose
    addressed window is `[w, w + d.length)` returns `d` -/
theorem read_sees (hst : Stored m w d b o l m') (hwf : MemWF m) (s : VSlice) (addr : Nat)
    (hin : Inside m s) (hpos : 0 < d.length) (hw : ofs m s + addr = w)
    (hfit : addr + d.length ≤ s.size) : s.read m' d.length addr = .ok d := by
  rw [read_ok m' s d.length addr (hst.memWF hwf) (hst.inside hin) hpos (by omega), hst.ofs_eq, hw]
  have : min d.length (s.size - addr) = d.length := by omega
  rw [this, hst.readback]

theorem readSlice_sees (hst : Stored m w d b o l m') (hwf : MemWF m) (s : VSlice) (addr : Nat)
    (hin : Inside m s) (hpos : 0 < d.length) (hw : ofs m s + addr = w)
    (hfit : addr + d.length ≤ s.size) : s.readSlice m' d.length addr = .ok d := by
  rw [readSlice_full m' s d.length addr (hst.memWF hwf) (hst.inside hin) hpos (by omega) (by omega),
    hst.ofs_eq, hw, hst.readback]

theorem readObj_sees (hst : Stored m w d b o l m') (hwf : MemWF m) (s : VSlice) (t : Ty) (addr : Nat)
    (hin : Inside m s) (hpos : 0 < d.length) (ht : t.size = d.length) (hw : ofs m s + addr = w)
    (hfit : addr + d.length ≤ s.size) : s.readObj m' t addr = .ok d := by
  rw [readObj_eq, ht]; exact readSlice_sees hst hwf s addr hin hpos hw hfit

/-- … so does an aligned `load` … -/
theorem load_sees (hst : Stored m w d b o l m') (hwf : MemWF m) (s : VSlice) (t : Ty) (addr : Nat)
    (hin : Inside m s) (ht : t.size = d.length) (hw : ofs m s + addr = w)
    (hfit : addr + t.size ≤ s.size) (hal : (s.addr + addr) % t.align = 0) :
    s.load m' t addr = .ok d := by
  rw [load_ok m' s t addr (hst.memWF hwf) (hst.inside hin) hfit hal, hst.ofs_eq, hw, ht, hst.readback]

/-- … a `VolatileRef::load` … -/
theorem ref_load_sees (hst : Stored m w d b o l m') (r : VRef)
    (hin : Inside m r.toSlice) (ht : r.ty.size = d.length) (hw : r.addr - m.base = w) :
    r.load m' = .ok d := by
  rw [ref_load_ok m' r (hst.inside hin), hst.base, hw, ht, hst.readback]

/-- … a `VolatileArrayRef::load(i)` … -/
theorem arr_load_sees (hst : Stored m w d b o l m') (hwf : MemWF m) (a : VArr) (i : Nat)
    (hin : AInside m a) (hi : i < a.nelem) (ht : a.ty.size = d.length)
    (hw : a.addr - m.base + a.ty.size * i = w) : a.load m' i = .ok d := by
  rw [arr_load_ok m' a i (hst.memWF hwf) (hst.ainside hin) hi, hst.base, hw, ht, hst.readback]

/-- … a bulk `copy_to` of a byte array covering exactly the window … -/
theorem arr_copyTo_sees (hst : Stored m w d b o l m') (hwf : MemWF m) (a : VArr) (blen : Nat)
    (hin : AInside m a) (hw : a.addr - m.base = w)
    (hn : min blen a.nelem * a.ty.size = d.length) :
    a.copyTo m' blen = .ok (min blen a.nelem, d) := by
  rw [arr_copyTo_ok m' a blen (hst.memWF hwf) (hst.ainside hin), hst.base, hw, hn, hst.readback]

/-- … and a read of a window disjoint from `w` sees what was there before -/
theorem read_unaffected (hst : Stored m w d b o l m') (hwf : MemWF m) (s : VSlice) (len addr : Nat)
    (hin : Inside m s) (hd : ofs m s + s.size ≤ w ∨ w + d.length ≤ ofs m s + addr) :
    s.read m' len addr = s.read m len addr := by
  by_cases h0 : len = 0
  · rw [h0, read_zero, read_zero]
  · by_cases h : addr < s.size
    · rw [read_ok m' s len addr (hst.memWF hwf) (hst.inside hin) (by omega) h,
        read_ok m s len addr hwf hin (by omega) h, hst.ofs_eq,
        hst.readback_disjoint _ _ (by omega)]
    · rw [read_oob m' s len addr (by omega) (by omega), read_oob m s len addr (by omega) (by omega)]
end sees

/-- a value stored through `store` is the value seen by `load`, by `read`/`read_obj` at
    the same offset, by a `VolatileRef` obtained from `get_ref`, and by element access
    through `get_array_ref` -/
theorem store_then_all_routes (m m' : Mem) (s : VSlice) (val : List UInt8) (t : Ty) (addr : Nat)
    (hinv : BmInv m) (hwf : MemWF m) (hin : Inside m s) (hval : t.size ≤ val.length)
    (hpos : 0 < t.size) (h : s.store m val t addr = .ok m') :
    s.load m' t addr = .ok (val.take t.size) ∧
    s.read m' t.size addr = .ok (val.take t.size) ∧
    s.readObj m' t addr = .ok (val.take t.size) ∧
    (∀ r, s.getRef addr t = .ok r → r.load m' = .ok (val.take t.size)) ∧
    (∀ a n i, s.getArrayRef addr n t = .ok a → i < n →
      a.load m' i = (s.read m' t.size (addr + t.size * i))) := by
  have hiff := (store_ok_iff m s val t addr hinv hwf hin).1 (by rw [h]; rfl)
  obtain ⟨m'', hok, hst⟩ := store_ok m s val t addr hinv hwf hin hiff.1 hiff.2
  rw [h] at hok; cases hok
  have hl : (val.take t.size).length = t.size := by rw [List.length_take]; omega
  refine ⟨?_, ?_, ?_, ?_, ?_⟩
  · exact load_sees hst hwf s t addr hin hl.symm rfl hiff.1 hiff.2
  · have := read_sees hst hwf s addr hin (by omega) rfl (by omega)
    rw [hl] at this; exact this
  · exact readObj_sees hst hwf s t addr hin (by omega) hl.symm rfl (by omega)
  · intro r hr
    obtain ⟨hrin, hro, hrt⟩ := getRef_inside hin hr
    exact ref_load_sees hst r hrin (by rw [hrt, hl]) hro
  · intro a n i ha hi
    obtain ⟨_, _, _, hle, haa, han, hat, _⟩ := getArrayRef_ok ha
    have h1 := hin.1; have h2 := hin.2
    have hain : AInside m a := ⟨by show m.base ≤ a.addr; omega,
      by show a.addr + a.nelem * a.ty.size ≤ _; rw [han, hat]; omega⟩
    have hi' : i < a.nelem := by omega
    have he := @elem_end_le t.size i n hi
    rw [arr_load_ok m' a i (hst.memWF hwf) (hst.ainside hain) hi', hst.base, hat,
      read_ok m' s t.size (addr + t.size * i) (hst.memWF hwf) (hst.inside hin) hpos (by omega),
      hst.ofs_eq]
    have e1 : a.addr - m.base + t.size * i = ofs m s + (addr + t.size * i) := by unfold ofs; omega
    have e2 : min t.size (s.size - (addr + t.size * i)) = t.size := by omega
    rw [e1, e2]

/-- what `write` stores, `read` at the same offset returns (same count) -/
theorem write_then_read (m m' : Mem) (s : VSlice) (buf : List UInt8) (addr n : Nat)
    (hinv : BmInv m) (hwf : MemWF m) (hin : Inside m s) (hne : buf ≠ [])
    (h : s.write m buf addr = .ok (m', n)) :
    n = min buf.length (s.size - addr) ∧ 0 < n ∧ s.read m' buf.length addr = .ok (buf.take n) := by
  have hlt : addr < s.size := by
    by_cases hlt : addr < s.size
    · exact hlt
    · rw [write_oob m s buf addr hne (by omega)] at h; cases h
  obtain ⟨m'', hok, hst⟩ := write_ok m s buf addr hinv hwf hin hne hlt
  rw [h] at hok; cases hok
  have hpos : 0 < buf.length := List.length_pos_iff.2 hne
  have hl : (buf.take (min buf.length (s.size - addr))).length = min buf.length (s.size - addr) := by
    rw [List.length_take]; omega
  refine ⟨rfl, by omega, ?_⟩
  rw [read_ok m' s buf.length addr (hst.memWF hwf) (hst.inside hin) hpos hlt, hst.ofs_eq]
  have := hst.readback
  rw [hl] at this; rw [this]

/-! ## §11 histories -/

/-- the mutating operations -/
inductive WOp
  | write (s : VSlice) (buf : List UInt8) (addr : Nat)
  | writeSlice (s : VSlice) (buf : List UInt8) (addr : Nat)
  | store (s : VSlice) (val : List UInt8) (t : Ty) (addr : Nat)
  | refStore (r : VRef) (val : List UInt8)
  | arrStore (a : VArr) (i : Nat) (val : List UInt8)
  | arrCopyFrom (a : VArr) (blen : Nat) (buf : List UInt8)
  | copyFrom (s : VSlice) (t : Ty) (blen : Nat) (buf : List UInt8)
  | copyToSlice (s dst : VSlice)
  | arrCopyToSlice (a : VArr) (dst : VSlice)

/-- the container after a call: an `Err` return leaves it as it was (except
    `write_slice`, which keeps the stored prefix), a panic ends the history -/
def keep {α} (m : Mem) (f : α → Mem) : Res α → Res Mem
  | .ok a => .ok (f a)
  | .err _ => .ok m
  | .panic => .panic

/-- the container `write_slice` leaves behind (it keeps a stored prefix on `PartialBuffer`) -/
def afterSlice : Mem × Res Unit → Res Mem
  | (_, .panic) => .panic
  | (m', _) => .ok m'

def step (m : Mem) : WOp → Res Mem
  | .write s buf addr => keep m Prod.fst (s.write m buf addr)
  | .writeSlice s buf addr => afterSlice (s.writeSlice m buf addr)
  | .store s val t addr => keep m id (s.store m val t addr)
  | .refStore r val => keep m id (r.store m val)
  | .arrStore a i val => keep m id (a.store m i val)
  | .arrCopyFrom a blen buf => keep m id (a.copyFrom m blen buf)
  | .copyFrom s t blen buf => keep m id (s.copyFrom m t blen buf)
  | .copyToSlice s dst => keep m id (s.copyToSlice m dst)
  | .arrCopyToSlice a dst => keep m id (a.copyToSlice m dst)

def run (m : Mem) : List WOp → Res Mem
  | [] => .ok m
  | op :: ops => step m op >>= fun m' => run m' ops

/-- the accessor(s) of the operation lie inside a container with this base and length
    (what C01 proves of every accessor derived from the container's root), the element
    index is in range, and sizes are `isize` values -/
def WOp.Valid (base len : Nat) : WOp → Prop
  | .write s _ _ | .writeSlice s _ _ | .store s _ _ _ =>
      base ≤ s.addr ∧ s.addr + s.size ≤ base + len
  | .refStore r _ => base ≤ r.addr ∧ r.addr + r.ty.size ≤ base + len
  | .arrStore a i _ => (base ≤ a.addr ∧ a.addr + a.nelem * a.ty.size ≤ base + len) ∧ i < a.nelem
  | .arrCopyFrom a _ _ => base ≤ a.addr ∧ a.addr + a.nelem * a.ty.size ≤ base + len
  | .copyFrom s t blen _ =>
      (base ≤ s.addr ∧ s.addr + s.size ≤ base + len) ∧ s.size ≤ ISIZE_MAX ∧
        (t.size = 0 → blen ≤ ISIZE_MAX)
  | .copyToSlice s dst =>
      (base ≤ s.addr ∧ s.addr + s.size ≤ base + len) ∧
        (base ≤ dst.addr ∧ dst.addr + dst.size ≤ base + len)
  | .arrCopyToSlice a dst =>
      (base ≤ a.addr ∧ a.addr + a.nelem * a.ty.size ≤ base + len) ∧
        (base ≤ dst.addr ∧ dst.addr + dst.size ≤ base + len)

/-- what every step preserves -/
structure Same (m m' : Mem) : Prop where
  base : m'.base = m.base
  length : m'.bytes.length = m.bytes.length
  inv : BmInv m'
  wf : MemWF m'

theorem Same.refl {m : Mem} (hinv : BmInv m) (hwf : MemWF m) : Same m m := ⟨rfl, rfl, hinv, hwf⟩

theorem Same.trans {m1 m2 m3 : Mem} (h1 : Same m1 m2) (h2 : Same m2 m3) : Same m1 m3 :=
  ⟨h2.base.trans h1.base, h2.length.trans h1.length, h2.inv, h2.wf⟩

theorem _root_.VmMem.DataLemmas.Stored.same {m m' : Mem} {w : Nat} {d : List UInt8} {b o l : Nat}
    (h : Stored m w d b o l m') (hwf : MemWF m) : Same m m' :=
  ⟨h.base, h.length_eq, h.inv, h.memWF hwf⟩

/-- a `Res Mem` that is an error or a `Stored` success keeps everything -/
theorem keep_same {m : Mem} (hinv : BmInv m) (hwf : MemWF m) {x : Res Mem}
    (hx : x ≠ .panic) (hok : ∀ m', x = .ok m' → Same m m') :
    ∃ m', keep m id x = .ok m' ∧ Same m m' := by
  cases x with
  | ok a => exact ⟨a, rfl, hok a rfl⟩
  | err e => exact ⟨m, rfl, Same.refl hinv hwf⟩
  | panic => exact absurd rfl hx

/-- **every mutating operation, valid or failing with an error, keeps base, length,
    `BmInv` and `MemWF`, and does not panic** -/
theorem step_preserves (m : Mem) (op : WOp) (hinv : BmInv m) (hwf : MemWF m)
    (hv : op.Valid m.base m.bytes.length) : ∃ m', step m op = .ok m' ∧ Same m m' := by
  cases op with
  | write s buf addr =>
    have hin : Inside m s := hv
    show ∃ m', keep m Prod.fst (s.write m buf addr) = .ok m' ∧ _
    by_cases hne : buf = []
    · rw [hne, write_empty]; exact ⟨m, rfl, Same.refl hinv hwf⟩
    · by_cases h : addr < s.size
      · obtain ⟨m', hok, hst⟩ := write_ok m s buf addr hinv hwf hin hne h
        rw [hok]; exact ⟨m', rfl, hst.same hwf⟩
      · rw [write_oob m s buf addr hne (by omega)]; exact ⟨m, rfl, Same.refl hinv hwf⟩
  | writeSlice s buf addr =>
    have hin : Inside m s := hv
    show ∃ m', afterSlice (s.writeSlice m buf addr) = .ok m' ∧ _
    by_cases hne : buf = []
    · rw [hne, writeSlice_empty]; exact ⟨m, rfl, Same.refl hinv hwf⟩
    · by_cases h : addr < s.size
      · by_cases hfit : buf.length ≤ s.size - addr
        · obtain ⟨m', hok, hst⟩ := writeSlice_full m s buf addr hinv hwf hin hne h hfit
          rw [hok]; exact ⟨m', rfl, hst.same hwf⟩
        · obtain ⟨m', hok, hst⟩ := writeSlice_partial m s buf addr hinv hwf hin h (by omega)
          rw [hok]; exact ⟨m', rfl, hst.same hwf⟩
      · rw [writeSlice_oob m s buf addr hne (by omega)]; exact ⟨m, rfl, Same.refl hinv hwf⟩
  | store s val t addr =>
    have hin : Inside m s := hv
    refine keep_same hinv hwf (store_no_panic m s val t addr hinv hwf hin) ?_
    intro m' hm'
    have hiff := (store_ok_iff m s val t addr hinv hwf hin).1 (by rw [hm']; rfl)
    obtain ⟨m'', hok, hst⟩ := store_ok m s val t addr hinv hwf hin hiff.1 hiff.2
    rw [hm'] at hok; cases hok; exact hst.same hwf
  | refStore r val =>
    have hin : Inside m r.toSlice := hv
    obtain ⟨m', hok, hst⟩ := ref_store_ok m r val hinv hin
    exact ⟨m', by show keep m id (r.store m val) = _; rw [hok]; rfl, hst.same hwf⟩
  | arrStore a i val =>
    have hin : AInside m a := hv.1
    obtain ⟨m', hok, hst⟩ := arr_store_ok m a i val hinv hwf hin hv.2
    exact ⟨m', by show keep m id (a.store m i val) = _; rw [hok]; rfl, hst.same hwf⟩
  | arrCopyFrom a blen buf =>
    have hin : AInside m a := hv
    obtain ⟨m', hok, hst⟩ := arr_copyFrom_ok m a blen buf hinv hwf hin
    exact ⟨m', by show keep m id (a.copyFrom m blen buf) = _; rw [hok]; rfl, hst.same hwf⟩
  | copyFrom s t blen buf =>
    have hin : Inside m s := hv.1
    obtain ⟨m', hok, hst⟩ := copyFrom_ok m s t blen buf hinv hwf hin hv.2.1 hv.2.2
    exact ⟨m', by show keep m id (s.copyFrom m t blen buf) = _; rw [hok]; rfl, hst.same hwf⟩
  | copyToSlice s dst =>
    have hin : Inside m s := hv.1
    have hdst : Inside m dst := hv.2
    obtain ⟨m', hok, hst⟩ := copyToSlice_ok m s dst hinv hin hdst
    exact ⟨m', by show keep m id (s.copyToSlice m dst) = _; rw [hok]; rfl, hst.same hwf⟩
  | arrCopyToSlice a dst =>
    have hin : AInside m a := hv.1
    have hdst : Inside m dst := hv.2
    obtain ⟨m', hok, hst⟩ := arr_copyToSlice_ok m a dst hinv hwf hin hdst
    exact ⟨m', by show keep m id (a.copyToSlice m dst) = _; rw [hok]; rfl, hst.same hwf⟩

/-- **histories**: any sequence of mutating operations through accessors of the
    container runs to completion without a panic and keeps base address, length, the
    bitmap invariant and well-formedness — so every theorem of this file applies again
    after any history. -/
theorem history (m : Mem) (ops : List WOp) (hinv : BmInv m) (hwf : MemWF m)
    (hv : ∀ op ∈ ops, op.Valid m.base m.bytes.length) : ∃ m', run m ops = .ok m' ∧ Same m m' := by
  induction ops generalizing m with
  | nil => exact ⟨m, rfl, Same.refl hinv hwf⟩
  | cons op ops ih =>
    obtain ⟨m1, h1, hs1⟩ := step_preserves m op hinv hwf (hv op (List.mem_cons_self ..))
    obtain ⟨m2, h2, hs2⟩ := ih m1 hs1.inv hs1.wf (by
      intro op' hop'
      rw [hs1.base, hs1.length]
      exact hv op' (List.mem_cons_of_mem _ hop'))
    refine ⟨m2, ?_, hs1.trans hs2⟩
    show (step m op >>= fun m' => run m' ops) = _
    rw [h1, Res.bind_ok, h2]

theorem history_length (m : Mem) (ops : List WOp) (hinv : BmInv m) (hwf : MemWF m)
    (hv : ∀ op ∈ ops, op.Valid m.base m.bytes.length) :
    ∃ m', run m ops = .ok m' ∧ m'.bytes.length = m.bytes.length ∧ m'.base = m.base := by
  obtain ⟨m', h, hs⟩ := history m ops hinv hwf hv
  exact ⟨m', h, hs.length, hs.base⟩

/-- a byte no operation of the history addresses is never changed: stated for a history
    of `write`s, each confined to its slice -/
theorem history_untouched (m : Mem) (reqs : List (VSlice × List UInt8 × Nat)) (hinv : BmInv m)
    (hwf : MemWF m) (i : Nat)
    (hv : ∀ r ∈ reqs, (m.base ≤ r.1.addr ∧ r.1.addr + r.1.size ≤ m.base + m.bytes.length) ∧
      (i < r.1.addr - m.base ∨ r.1.addr - m.base + r.1.size ≤ i)) :
    ∃ m', run m (reqs.map fun r => WOp.write r.1 r.2.1 r.2.2) = .ok m' ∧ m'.bytes[i]? = m.bytes[i]? := by
  induction reqs generalizing m with
  | nil => exact ⟨m, rfl, rfl⟩
  | cons r rs ih =>
    have hr := hv r (List.mem_cons_self ..)
    have hin : Inside m r.1 := hr.1
    -- the first step
    have hstep : ∃ m1, step m (.write r.1 r.2.1 r.2.2) = .ok m1 ∧ Same m m1 ∧ m1.bytes[i]? = m.bytes[i]? := by
      show ∃ m1, keep m Prod.fst (r.1.write m r.2.1 r.2.2) = .ok m1 ∧ _
      by_cases hne : r.2.1 = []
      · rw [hne, write_empty]; exact ⟨m, rfl, Same.refl hinv hwf, rfl⟩
      · by_cases h : r.2.2 < r.1.size
        · obtain ⟨m', hok, hst⟩ := write_ok m r.1 r.2.1 r.2.2 hinv hwf hin hne h
          rw [hok]
          refine ⟨m', rfl, hst.same hwf, hst.frame i ?_⟩
          have hl : (r.2.1.take (min r.2.1.length (r.1.size - r.2.2))).length
              = min r.2.1.length (r.1.size - r.2.2) := by rw [List.length_take]; omega
          rw [hl]
          have := hr.2
          unfold ofs; omega
        · rw [write_oob m r.1 r.2.1 r.2.2 hne (by omega)]
          exact ⟨m, rfl, Same.refl hinv hwf, rfl⟩
    obtain ⟨m1, h1, hs1, hb1⟩ := hstep
    obtain ⟨m2, h2, hb2⟩ := ih m1 hs1.inv hs1.wf (by
      intro r' hr'
      rw [hs1.base, hs1.length]
      exact hv r' (List.mem_cons_of_mem _ hr'))
    refine ⟨m2, ?_, hb2.trans hb1⟩
    show (step m _ >>= fun m' => run m' _) = _
    rw [h1, Res.bind_ok]; exact h2

/-! ## §12 what `BmInv` is for -/

/-- without `BmInv`: the only failure of an in-range `write` is a panic inside the bitmap -/
theorem write_cases (m : Mem) (s : VSlice) (buf : List UInt8) (addr : Nat)
    (hwf : MemWF m) (hin : Inside m s) (hne : buf ≠ []) (h : addr < s.size) :
    (s.write m buf addr = .panic ∧
      m.mark (sliceAt s.bmBase addr) 0 (min buf.length (s.size - addr)) = .panic) ∨
    ∃ m0, m.mark (sliceAt s.bmBase addr) 0 (min buf.length (s.size - addr)) = .ok m0 ∧
      s.write m buf addr =
        .ok ({ m0 with bytes := (splice m.bytes (ofs m s + addr)
                (buf.take (min buf.length (s.size - addr)))) }, min buf.length (s.size - addr)) := by
  have h1 := hin.1; have h2 := hin.2; have h3 := hwf.fits
  have hA : s.addr + addr < U := by omega
  have hB : addr ≤ s.size := by omega
  have hge : ¬ (addr ≥ s.size) := by omega
  have hlen : (buf.take (min buf.length (s.size - addr))).length = min buf.length (s.size - addr) := by
    rw [List.length_take]; omega
  have hwin : m.base ≤ s.addr + addr ∧
      s.addr + addr + (buf.take (min buf.length (s.size - addr))).length ≤ m.base + m.bytes.length := by
    rw [hlen]; omega
  have ho : ofs m s + addr = s.addr + addr - m.base := by unfold ofs; omega
  unfold VSlice.write
  rw [isEmpty_false hne, if_neg (by simp), if_neg hge, offset_eq, if_pos hA, if_pos hB, Res.bind_ok]
  rw [Nat.min_comm]
  unfold copyToVolatileSlice
  dsimp only
  rw [writeAt_eq, if_pos (Or.inr hwin), Res.bind_ok, mark_congr, ho]
  cases hm : m.mark (sliceAt s.bmBase addr) 0 (min buf.length (s.size - addr)) with
  | ok m0 => exact Or.inr ⟨m0, rfl, rfl⟩
  | panic => exact Or.inl ⟨rfl, rfl⟩
  | err e =>
    exfalso
    unfold Mem.mark at hm
    split at hm
    · cases hm
    · rename_i b _
      unfold markVia ABitmap.markDirty ABitmap.setResetAddrRange ABitmap.runProgram at hm
      split at hm <;> cases hm


/-- a tracking bitmap whose word vector is too short for its page count (not `Inv`) -/
def badBm : ABitmap := ⟨[], 8, 1000, 128⟩

theorem badBm_mark_panics :
    (⟨0x1003, List.replicate 13 0, some badBm⟩ : Mem).mark 0 0 1 = .panic := by
  have hp : badBm.rangeProgram (wrappingAdd 0 0) 1 true = [.fetchOr 0 1#64] := by
    unfold ABitmap.rangeProgram
    rw [if_neg (by decide)]
    show ABitmap.rangeSteps 8 0 0 true = _
    rw [ABitmap.rangeSteps, if_pos (by decide), ABitmap.rangeSteps, if_neg (by decide)]
    decide
  show (markVia badBm 0 0 1 >>= _) = _
  unfold markVia ABitmap.markDirty ABitmap.setResetAddrRange
  rw [hp]
  decide

/-- `BmInv` cannot be dropped: with such a bitmap an in-range one-byte `write` panics
    (in `mark_dirty`, after the byte was stored) -/
theorem write_needs_BmInv :
    (VSlice.mk 0x1003 13 0).write ⟨0x1003, List.replicate 13 0, some badBm⟩ [7] 0 = .panic := by
  have hlen : (List.replicate 13 (0 : UInt8)).length = 13 := List.length_replicate ..
  have hwf : MemWF ⟨0x1003, List.replicate 13 0, some badBm⟩ :=
    ⟨by show 0x1003 + (List.replicate 13 (0 : UInt8)).length ≤ U; rw [hlen]; decide,
     by show (List.replicate 13 (0 : UInt8)).length < U; rw [hlen]; decide⟩
  have hin : Inside ⟨0x1003, List.replicate 13 0, some badBm⟩ (VSlice.mk 0x1003 13 0) :=
    ⟨Nat.le_refl _, by show 0x1003 + 13 ≤ 0x1003 + (List.replicate 13 (0 : UInt8)).length; rw [hlen]; decide⟩
  rcases write_cases _ (VSlice.mk 0x1003 13 0) [7] 0 hwf hin (by decide) (by decide) with h | ⟨m0, hm0, _⟩
  · exact h.1
  · have := badBm_mark_panics
    rw [show sliceAt (VSlice.mk 0x1003 13 0).bmBase 0 = 0 from by decide,
      show min [(7 : UInt8)].length ((VSlice.mk 0x1003 13 0).size - 0) = 1 from by decide] at hm0
    rw [this] at hm0; cases hm0

/-! ## §13 non-vacuity: a 13-byte container at host address `0x1003` -/

/-- 13 bytes `0..12` at host address `0x1003` (base skew 3), no tracking -/
def exMem : Mem := ⟨0x1003, [0, 1, 2, 3, 4, 5, 6, 7, 8, 9, 10, 11, 12], none⟩
/-- bytes `[2, 10)` of it -/
def exS : VSlice := ⟨0x1005, 8, 2⟩

example : Inside exMem exS := ⟨by decide, by decide⟩
example : MemWF exMem := ⟨by decide, by decide⟩
example : BmInv exMem := BmInv_none _ rfl

/-- three bytes asked at offset 6 of an 8-byte slice: two are stored, `2` is reported -/
example : exS.write exMem [0xAA, 0xBB, 0xCC] 6 =
    .ok (⟨0x1003, [0, 1, 2, 3, 4, 5, 6, 7, 0xAA, 0xBB, 10, 11, 12], none⟩, 2) := by decide
example : exS.write exMem [0xAA] 8 = .err .outOfBounds := by decide
example : exS.write exMem [] 8 = .ok (exMem, 0) := by decide
example : exS.read exMem 5 6 = .ok [8, 9] := by decide
example : exS.read exMem 1 8 = .err .outOfBounds := by decide
example : exS.writeSlice exMem [0xAA, 0xBB, 0xCC] 6 =
    (⟨0x1003, [0, 1, 2, 3, 4, 5, 6, 7, 0xAA, 0xBB, 10, 11, 12], none⟩, .err (.partialBuffer 3 2)) := by
  decide
example : exS.readSlice exMem 3 6 = .err (.partialBuffer 3 2) := by decide
example : exS.readSlice exMem 2 6 = .ok [8, 9] := by decide
/-- `0x1005 + 3 = 0x1008` is 4-aligned -/
example : exS.store exMem [0xA0, 0xA1, 0xA2, 0xA3] ⟨4, 4⟩ 3 =
    .ok ⟨0x1003, [0, 1, 2, 3, 4, 0xA0, 0xA1, 0xA2, 0xA3, 9, 10, 11, 12], none⟩ := by decide
example : exS.store exMem [0xA0, 0xA1, 0xA2, 0xA3] ⟨4, 4⟩ 2 = .err .misaligned := by decide
example : exS.store exMem [0xA0, 0xA1, 0xA2, 0xA3] ⟨4, 4⟩ 7 = .err .outOfBounds := by decide
example : exS.load exMem ⟨4, 4⟩ 3 = .ok [5, 6, 7, 8] := by decide
/-- the same four bytes through `get_ref`, through `read`, through an array element -/
example : (exS.getRef 3 ⟨4, 4⟩ >>= fun r => r.load exMem) = .ok [5, 6, 7, 8] := by decide
example : exS.read exMem 4 3 = .ok [5, 6, 7, 8] := by decide
example : (exS.getArrayRef 1 3 ⟨2, 1⟩ >>= fun a => a.load exMem 1) = .ok [5, 6] := by decide
example : (exS.getArrayRef 1 3 ⟨2, 1⟩ >>= fun a => a.load exMem 3) = .panic := by decide
/-- `copy_to::<u32>` into a 5-element buffer: `8 / 4 = 2` elements -/
example : exS.copyTo exMem ⟨4, 4⟩ 5 = .ok (2, [2, 3, 4, 5, 6, 7, 8, 9]) := by decide
example : exS.copyTo exMem ⟨1, 1⟩ 20 = .ok (8, [2, 3, 4, 5, 6, 7, 8, 9]) := by decide
example : exS.copyTo exMem ⟨3, 1⟩ 1 = .ok (1, [2, 3, 4]) := by decide
example : exS.copyFrom exMem ⟨3, 1⟩ 5 [0xB0, 0xB1, 0xB2, 0xB3, 0xB4, 0xB5, 0xB6, 0xB7, 0xB8] =
    .ok ⟨0x1003, [0, 1, 0xB0, 0xB1, 0xB2, 0xB3, 0xB4, 0xB5, 8, 9, 10, 11, 12], none⟩ := by decide
/-- overlapping `copy_to_volatile_slice` is a memmove: the source bytes are those of the
    original container -/
example : (VSlice.mk 0x1003 6 0).copyToSlice exMem ⟨0x1005, 6, 2⟩ =
    .ok ⟨0x1003, [0, 1, 0, 1, 2, 3, 4, 5, 8, 9, 10, 11, 12], none⟩ := by decide
/-- a short destination cuts the copy -/
example : exS.copyToSlice exMem ⟨0x1003, 2, 0⟩ =
    .ok ⟨0x1003, [2, 3, 2, 3, 4, 5, 6, 7, 8, 9, 10, 11, 12], none⟩ := by decide
/-- a history -/
example : run exMem [.write exS [0xAA, 0xBB, 0xCC] 6, .store exS [1, 1, 1, 1] ⟨4, 4⟩ 2,
      .store exS [0xA0, 0xA1, 0xA2, 0xA3] ⟨4, 4⟩ 3, .copyToSlice ⟨0x1003, 6, 0⟩ ⟨0x1005, 6, 2⟩] =
    .ok ⟨0x1003, [0, 1, 0, 1, 2, 3, 4, 0xA0, 0xA3, 0xBB, 10, 11, 12], none⟩ := by decide
/-- outside the container the raw accessors report UB as a panic: the hypotheses
    `Inside` are what rules this out -/
example : (VSlice.mk 0x1005 20 2).write exMem [1, 2, 3] 10 = .panic := by decide

/-- the same container tracked by a bitmap with 4-byte pages: the theorems apply
    (`BmInv` from C09.new_inv), the write succeeds, the invariant is kept -/
def exTracked : Mem := ⟨0x1003, [0, 1, 2, 3, 4, 5, 6, 7, 8, 9, 10, 11, 12], some (ABitmap.new 13 4)⟩

theorem exTracked_inv : BmInv exTracked := by
  intro b hb
  cases hb
  exact C09.new_inv 13 4 (by decide)

example : ∃ m', exS.write exTracked [0xAA, 0xBB, 0xCC] 6 = .ok (m', 2) ∧
    m'.bytes = [0, 1, 2, 3, 4, 5, 6, 7, 0xAA, 0xBB, 10, 11, 12] ∧ BmInv m' ∧
    exS.read m' 2 6 = .ok [0xAA, 0xBB] := by
  have hwf : MemWF exTracked := ⟨by decide, by decide⟩
  have hin : Inside exTracked exS := ⟨by decide, by decide⟩
  obtain ⟨m', hok, hst⟩ := write_ok exTracked exS [0xAA, 0xBB, 0xCC] 6 exTracked_inv hwf hin
    (by decide) (by decide)
  refine ⟨m', hok, ?_, hst.inv, ?_⟩
  · rw [hst.bytes]; decide
  · exact read_sees hst hwf exS 6 hin (by decide) (by decide) (by decide)

end C04
end VmMem

#print axioms VmMem.C04.Inside.size_lt
#print axioms VmMem.C04.Inside.window
#print axioms VmMem.C04.root_inside
#print axioms VmMem.C04.isEmpty_false
#print axioms VmMem.C04.raw_write
#print axioms VmMem.C04.raw_read
#print axioms VmMem.C04.raw_write_outside
#print axioms VmMem.C04.raw_read_outside
#print axioms VmMem.C04.write_empty
#print axioms VmMem.C04.write_oob
#print axioms VmMem.C04.write_ok
#print axioms VmMem.C04.write_spec
#print axioms VmMem.C04.write_no_panic
#print axioms VmMem.C04.write_ok_untracked
#print axioms VmMem.C04.read_zero
#print axioms VmMem.C04.read_oob
#print axioms VmMem.C04.read_ok
#print axioms VmMem.C04.read_spec
#print axioms VmMem.C04.read_length
#print axioms VmMem.C04.read_no_panic
#print axioms VmMem.C04.writeSlice_empty
#print axioms VmMem.C04.writeSlice_oob
#print axioms VmMem.C04.writeSlice_full
#print axioms VmMem.C04.writeSlice_partial
#print axioms VmMem.C04.writeSlice_ok_iff
#print axioms VmMem.C04.writeSlice_no_panic
#print axioms VmMem.C04.readSlice_zero
#print axioms VmMem.C04.readSlice_oob
#print axioms VmMem.C04.readSlice_full
#print axioms VmMem.C04.readSlice_partial
#print axioms VmMem.C04.readSlice_ok_iff
#print axioms VmMem.C04.readSlice_no_panic
#print axioms VmMem.C04.writeObj_eq
#print axioms VmMem.C04.readObj_eq
#print axioms VmMem.DataLemmas.Stored.inside
#print axioms VmMem.DataLemmas.Stored.memWF
#print axioms VmMem.DataLemmas.Stored.ofs_eq
#print axioms VmMem.C04.store_ok
#print axioms VmMem.C04.store_misaligned
#print axioms VmMem.C04.store_oob
#print axioms VmMem.C04.store_overflow
#print axioms VmMem.C04.store_ok_iff
#print axioms VmMem.C04.store_no_panic
#print axioms VmMem.C04.load_ok
#print axioms VmMem.C04.load_misaligned
#print axioms VmMem.C04.load_oob
#print axioms VmMem.C04.load_overflow
#print axioms VmMem.C04.load_ok_iff
#print axioms VmMem.C04.load_no_panic
#print axioms VmMem.C04.ref_store_ok
#print axioms VmMem.C04.ref_load_ok
#print axioms VmMem.C04.getRef_inside
#print axioms VmMem.C04.elem_lt_U
#print axioms VmMem.C04.refAt_inside
#print axioms VmMem.C04.arr_store_ok
#print axioms VmMem.C04.arr_load_ok
#print axioms VmMem.C04.arr_store_index
#print axioms VmMem.C04.arr_load_index
#print axioms VmMem.C04.arr_store_panic_iff
#print axioms VmMem.C04.arr_load_panic_iff
#print axioms VmMem.C04.arr_copyTo_ok
#print axioms VmMem.C04.arr_copyFrom_ok
#print axioms VmMem.C04.arr_copyTo_count
#print axioms VmMem.C04.elemCount_one
#print axioms VmMem.C04.elemCount_pos
#print axioms VmMem.C04.elemCount_zero
#print axioms VmMem.C04.elemCount_mul_le
#print axioms VmMem.C04.elem_array
#print axioms VmMem.C04.copyTo_ok
#print axioms VmMem.C04.copyFrom_ok
#print axioms VmMem.C04.copyTo_zst_too_big
#print axioms VmMem.C04.copyToSlice_ok
#print axioms VmMem.C04.arr_copyToSlice_ok
#print axioms VmMem.C04.copyToSlice_self_bytes
#print axioms VmMem.C04.frame
#print axioms VmMem.C04.write_frame
#print axioms VmMem.C04.write_confined
#print axioms VmMem.C04.routes_agree
#print axioms VmMem.C04.routes_agree_disjoint
#print axioms VmMem.DataLemmas.Stored.ainside
#print axioms VmMem.C04.read_sees
#print axioms VmMem.C04.readSlice_sees
#print axioms VmMem.C04.readObj_sees
#print axioms VmMem.C04.load_sees
#print axioms VmMem.C04.ref_load_sees
#print axioms VmMem.C04.arr_load_sees
#print axioms VmMem.C04.arr_copyTo_sees
#print axioms VmMem.C04.read_unaffected
#print axioms VmMem.C04.store_then_all_routes
#print axioms VmMem.C04.write_then_read
#print axioms VmMem.C04.Same.refl
#print axioms VmMem.C04.Same.trans
#print axioms VmMem.DataLemmas.Stored.same
#print axioms VmMem.C04.keep_same
#print axioms VmMem.C04.step_preserves
#print axioms VmMem.C04.history
#print axioms VmMem.C04.history_length
#print axioms VmMem.C04.history_untouched
#print axioms VmMem.C04.write_cases
#print axioms VmMem.C04.badBm_mark_panics
#print axioms VmMem.C04.write_needs_BmInv
#print axioms VmMem.C04.exTracked_inv
