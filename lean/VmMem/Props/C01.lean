/-
  VmMem.Props.C01 — derived volatile accessors stay inside the memory they were
  derived from.

  Whatever offset / length / element count is requested, any view (`VSlice`),
  typed reference (`VRef`), array reference (`VArr`) or pointer guard derived from
  a piece of volatile memory designates only bytes inside the memory it was derived
  from; typed/atomic references are only produced for suitably aligned addresses; a
  request that does not fit — including one whose arithmetic would overflow — is
  answered with an error and never with an accessor (and never a panic); for all
  chains of derivations of any depth.

  Layout
    §0  accessors, derivation steps, chains, well-formedness
    §1  per-function containment, `derive_inside`, `derive_contained`
    §2  chains (`chain_contained`, `chain_snoc`)
    §3  exact acceptance conditions (`…_ok_iff`), result fields (`…_val`),
        classification of the misfit errors (`…_err_overflow`, `…_err_oob`, …)
    §4  no panic (`derive_no_panic`, `refAt_panics_iff`)
    §5  alignment of typed references
    §6  array byte length fits `isize`
    §7  guards (with the documented defect of the array guard length)
    §8  root / `Mem.inBounds`
    §9  non-vacuity examples

  Deviation from the requested phrasing (reported, not silent):
  `Acc.WF` was requested as "`lo + bytes ≤ U`; for arrays additionally
  `nelem * ty.size ≤ ISIZE_MAX`".  With that definition `derive_contained` is false
  for `sliceToArr` (`From<VolatileSlice> for VolatileArrayRef<u8>` performs no
  `isize` check): the slice `{addr := 0, size := 2^63}` satisfies `0 + 2^63 ≤ U`
  but its `toArr` has `2^63 * 1 > ISIZE_MAX` bytes.  And with only `lo + bytes ≤ U`
  for slices `derive_no_panic` is false: `{addr := 0, size := U}` ⟶ `toArr` ⟶
  `toSlice` evaluates `mulP U 1 = panic`.  Two invariants are therefore provided:
    * `Acc.WF  a := a.lo + a.bytes ≤ U ∧ a.bytes < U`          (minimal; all that the
      no-panic theorems need; `bytes < U` only says "the size is a `usize`"),
    * `Acc.WFI a := a.lo + a.bytes ≤ U ∧ a.bytes ≤ ISIZE_MAX`  (Rust's allocation
      invariant; implies `WF`),
  both are preserved by every derivation step.  Containment itself
  (`derive_inside`, `chain_inside`) needs no hypothesis at all.
-/
import VmMem.Model.Volatile
import VmMem.Lemmas.VolatileLemmas
namespace VmMem
namespace C01
open VolatileLemmas

/-! ## §0 definitions -/

/-- an accessor of any of the three kinds -/
inductive Acc
  | sl (s : VSlice)
  | rf (r : VRef)
  | ar (a : VArr)
  deriving Repr, DecidableEq, Inhabited

/-- first byte address -/
def Acc.lo : Acc → Nat
  | .sl s => s.addr
  | .rf r => r.addr
  | .ar a => a.addr

/-- number of bytes designated -/
def Acc.bytes : Acc → Nat
  | .sl s => s.size
  | .rf r => r.ty.size
  | .ar a => a.nelem * a.ty.size

/-- one past the last byte address -/
def Acc.hi (a : Acc) : Nat := a.lo + a.bytes

/-- derivation steps -/
inductive DOp
  | sub (off cnt : Nat)
  | off (cnt : Nat)
  | splitL (mid : Nat)
  | splitR (mid : Nat)
  | getRef (off : Nat) (t : Ty)
  | getArr (off n : Nat) (t : Ty)
  | refToSlice
  | arrToSlice
  | refAt (i : Nat)
  | sliceToArr
  deriving Repr, DecidableEq, Inhabited

/-- functorial map of `Res`, written out so that no `LawfulMonad` instance is needed -/
def mapOk {α β} (f : α → β) : Res α → Res β
  | .ok a => .ok (f a)
  | .err e => .err e
  | .panic => .panic

theorem mapOk_eq_ok {α β} (f : α → β) (x : Res α) (b : β) :
    mapOk f x = .ok b ↔ ∃ a, x = .ok a ∧ f a = b := by
  cases x <;> simp [mapOk]

theorem mapOk_eq_panic {α β} (f : α → β) (x : Res α) :
    mapOk f x = .panic ↔ x = .panic := by
  cases x <;> simp [mapOk]

/-- apply one derivation step.  The model function is applied when the accessor kind
    matches.  A kind mismatch (e.g. `refAt` on a slice) is a *type error* in Rust, not
    a run-time event; the model answers it with `.err .hostAddressNotAvailable`, an
    error value none of the modelled volatile functions produces. -/
def derive : Acc → DOp → Res Acc
  | .sl s, .sub off cnt => mapOk Acc.sl (s.subslice off cnt)
  | .sl s, .off cnt => mapOk Acc.sl (s.offset cnt)
  | .sl s, .splitL mid => mapOk (fun p => Acc.sl p.1) (s.splitAt mid)
  | .sl s, .splitR mid => mapOk (fun p => Acc.sl p.2) (s.splitAt mid)
  | .sl s, .getRef off t => mapOk Acc.rf (s.getRef off t)
  | .sl s, .getArr off n t => mapOk Acc.ar (s.getArrayRef off n t)
  | .sl s, .sliceToArr => .ok (.ar s.toArr)
  | .rf r, .refToSlice => .ok (.sl r.toSlice)
  | .ar a, .arrToSlice => mapOk Acc.sl a.toSlice
  | .ar a, .refAt i => mapOk Acc.rf (a.refAt i)
  | _, _ => .err .hostAddressNotAvailable

/-- apply a chain of derivation steps, left to right -/
def deriveChain (a : Acc) : List DOp → Res Acc
  | [] => .ok a
  | op :: ops => derive a op >>= fun a' => deriveChain a' ops

/-- `deriveChain` is the monadic left fold of `derive` -/
theorem deriveChain_eq_foldlM (a : Acc) (ops : List DOp) :
    deriveChain a ops = ops.foldlM derive a := by
  induction ops generalizing a with
  | nil => rfl
  | cons op ops ih =>
    simp only [deriveChain, List.foldlM_cons]
    congr 1
    funext a'
    exact ih a'

/-- well-formedness every accessor handed out satisfies: its extent does not wrap
    around the address space and its byte length is a `usize` value. -/
def Acc.WF (a : Acc) : Prop := a.lo + a.bytes ≤ U ∧ a.bytes < U

/-- the stronger invariant of real Rust allocations: the byte length fits `isize` -/
def Acc.WFI (a : Acc) : Prop := a.lo + a.bytes ≤ U ∧ a.bytes ≤ ISIZE_MAX

instance (a : Acc) : Decidable a.WF := by unfold Acc.WF; infer_instance
instance (a : Acc) : Decidable a.WFI := by unfold Acc.WFI; infer_instance

theorem Acc.WFI.wf {a : Acc} (h : a.WFI) : a.WF :=
  ⟨h.1, Nat.lt_of_le_of_lt h.2 ISIZE_MAX_lt_U⟩

/-- `b` designates only bytes of `a` -/
def Acc.inside (b a : Acc) : Prop := a.lo ≤ b.lo ∧ b.hi ≤ a.hi

theorem Acc.inside_refl (a : Acc) : a.inside a := ⟨Nat.le_refl _, Nat.le_refl _⟩

theorem Acc.inside_trans {c b a : Acc} (h1 : c.inside b) (h2 : b.inside a) : c.inside a :=
  ⟨Nat.le_trans h2.1 h1.1, Nat.le_trans h1.2 h2.2⟩

/-- an accessor inside another has at most as many bytes -/
theorem Acc.inside_bytes_le {b a : Acc} (h : b.inside a) : b.bytes ≤ a.bytes := by
  unfold Acc.inside Acc.hi at h
  omega

/-- both invariants are inherited by anything inside -/
theorem Acc.WF.of_inside {b a : Acc} (hwf : a.WF) (h : b.inside a) : b.WF := by
  have hb := Acc.inside_bytes_le h
  unfold Acc.inside Acc.hi at h
  unfold Acc.WF at *
  omega

theorem Acc.WFI.of_inside {b a : Acc} (hwf : a.WFI) (h : b.inside a) : b.WFI := by
  have hb := Acc.inside_bytes_le h
  unfold Acc.inside Acc.hi at h
  unfold Acc.WFI at *
  omega

/-! ## §1 per-function containment -/

theorem subslice_contained {s s' : VSlice} {off cnt : Nat} (h : s.subslice off cnt = .ok s') :
    (Acc.sl s).lo ≤ (Acc.sl s').lo ∧ (Acc.sl s').hi ≤ (Acc.sl s).hi := by
  have := subslice_ok h
  simp only [Acc.lo, Acc.hi, Acc.bytes]
  omega

theorem offset_contained {s s' : VSlice} {cnt : Nat} (h : s.offset cnt = .ok s') :
    (Acc.sl s).lo ≤ (Acc.sl s').lo ∧ (Acc.sl s').hi ≤ (Acc.sl s).hi := by
  have := offset_ok h
  simp only [Acc.lo, Acc.hi, Acc.bytes]
  omega

/-- `offset` never shortens the end: the derived view ends exactly where the parent ends -/
theorem offset_same_end {s s' : VSlice} {cnt : Nat} (h : s.offset cnt = .ok s') :
    (Acc.sl s').hi = (Acc.sl s).hi := by
  have := offset_ok h
  simp only [Acc.lo, Acc.hi, Acc.bytes]
  omega

theorem splitAt_contained {s l r : VSlice} {mid : Nat} (h : s.splitAt mid = .ok (l, r)) :
    ((Acc.sl s).lo ≤ (Acc.sl l).lo ∧ (Acc.sl l).hi ≤ (Acc.sl s).hi) ∧
    ((Acc.sl s).lo ≤ (Acc.sl r).lo ∧ (Acc.sl r).hi ≤ (Acc.sl s).hi) := by
  have := splitAt_ok h
  simp only [Acc.lo, Acc.hi, Acc.bytes]
  omega

/-- the two halves of `split_at` are adjacent, disjoint and cover the parent exactly -/
theorem splitAt_partition {s l r : VSlice} {mid : Nat} (h : s.splitAt mid = .ok (l, r)) :
    (Acc.sl l).lo = (Acc.sl s).lo ∧ (Acc.sl l).hi = (Acc.sl r).lo ∧
      (Acc.sl r).hi = (Acc.sl s).hi := by
  have := splitAt_ok h
  simp only [Acc.lo, Acc.hi, Acc.bytes]
  omega

theorem getRef_contained {s : VSlice} {r : VRef} {off : Nat} {t : Ty}
    (h : s.getRef off t = .ok r) :
    (Acc.sl s).lo ≤ (Acc.rf r).lo ∧ (Acc.rf r).hi ≤ (Acc.sl s).hi := by
  obtain ⟨h1, h2, h3, h4, -⟩ := getRef_ok h
  simp only [Acc.lo, Acc.hi, Acc.bytes, h4]
  omega

theorem getArrayRef_contained {s : VSlice} {a : VArr} {off n : Nat} {t : Ty}
    (h : s.getArrayRef off n t = .ok a) :
    (Acc.sl s).lo ≤ (Acc.ar a).lo ∧ (Acc.ar a).hi ≤ (Acc.sl s).hi := by
  obtain ⟨-, -, h1, h2, h3, h4, h5, -⟩ := getArrayRef_ok h
  simp only [Acc.lo, Acc.hi, Acc.bytes, h4, h5]
  omega

theorem refAt_contained {a : VArr} {r : VRef} {i : Nat} (h : a.refAt i = .ok r) :
    (Acc.ar a).lo ≤ (Acc.rf r).lo ∧ (Acc.rf r).hi ≤ (Acc.ar a).hi := by
  obtain ⟨h1, -, h3, h4, -⟩ := refAt_ok h
  have := @elem_end_le a.ty.size i a.nelem h1
  simp only [Acc.lo, Acc.hi, Acc.bytes, h4]
  omega

theorem refToSlice_contained (r : VRef) :
    (Acc.rf r).lo ≤ (Acc.sl r.toSlice).lo ∧ (Acc.sl r.toSlice).hi ≤ (Acc.rf r).hi := by
  simp [Acc.lo, Acc.hi, Acc.bytes, VRef.toSlice]

theorem arrToSlice_contained {a : VArr} {s : VSlice} (h : a.toSlice = .ok s) :
    (Acc.ar a).lo ≤ (Acc.sl s).lo ∧ (Acc.sl s).hi ≤ (Acc.ar a).hi := by
  have := arrToSlice_ok h
  simp only [Acc.lo, Acc.hi, Acc.bytes]
  omega

theorem toArr_contained (s : VSlice) :
    (Acc.sl s).lo ≤ (Acc.ar s.toArr).lo ∧ (Acc.ar s.toArr).hi ≤ (Acc.sl s).hi := by
  simp [Acc.lo, Acc.hi, Acc.bytes, VSlice.toArr]

/-- the conversions designate *exactly* the same bytes -/
theorem conversions_same_extent (r : VRef) (s : VSlice) :
    ((Acc.sl r.toSlice).lo = (Acc.rf r).lo ∧ (Acc.sl r.toSlice).bytes = (Acc.rf r).bytes) ∧
    ((Acc.ar s.toArr).lo = (Acc.sl s).lo ∧ (Acc.ar s.toArr).bytes = (Acc.sl s).bytes) := by
  simp [Acc.lo, Acc.bytes, VRef.toSlice, VSlice.toArr]

/-- one step of any kind, with any operands: the result designates only bytes of the
    parent.  No hypothesis on the parent is needed. -/
theorem derive_inside {a a' : Acc} {op : DOp} (h : derive a op = .ok a') :
    a.lo ≤ a'.lo ∧ a'.hi ≤ a.hi := by
  cases a with
  | sl s =>
    cases op with
    | sub off cnt =>
      simp only [derive, mapOk_eq_ok] at h
      obtain ⟨x, hx, rfl⟩ := h
      exact subslice_contained hx
    | off cnt =>
      simp only [derive, mapOk_eq_ok] at h
      obtain ⟨x, hx, rfl⟩ := h
      exact offset_contained hx
    | splitL mid =>
      simp only [derive, mapOk_eq_ok] at h
      obtain ⟨⟨l, r⟩, hx, rfl⟩ := h
      exact (splitAt_contained hx).1
    | splitR mid =>
      simp only [derive, mapOk_eq_ok] at h
      obtain ⟨⟨l, r⟩, hx, rfl⟩ := h
      exact (splitAt_contained hx).2
    | getRef off t =>
      simp only [derive, mapOk_eq_ok] at h
      obtain ⟨x, hx, rfl⟩ := h
      exact getRef_contained hx
    | getArr off n t =>
      simp only [derive, mapOk_eq_ok] at h
      obtain ⟨x, hx, rfl⟩ := h
      exact getArrayRef_contained hx
    | sliceToArr =>
      simp only [derive, Res.ok.injEq] at h
      subst h
      exact toArr_contained s
    | refToSlice => simp [derive] at h
    | arrToSlice => simp [derive] at h
    | refAt i => simp [derive] at h
  | rf r =>
    cases op with
    | refToSlice =>
      simp only [derive, Res.ok.injEq] at h
      subst h
      exact refToSlice_contained r
    | sub off cnt => simp [derive] at h
    | off cnt => simp [derive] at h
    | splitL mid => simp [derive] at h
    | splitR mid => simp [derive] at h
    | getRef off t => simp [derive] at h
    | getArr off n t => simp [derive] at h
    | sliceToArr => simp [derive] at h
    | arrToSlice => simp [derive] at h
    | refAt i => simp [derive] at h
  | ar arr =>
    cases op with
    | arrToSlice =>
      simp only [derive, mapOk_eq_ok] at h
      obtain ⟨x, hx, rfl⟩ := h
      exact arrToSlice_contained hx
    | refAt i =>
      simp only [derive, mapOk_eq_ok] at h
      obtain ⟨x, hx, rfl⟩ := h
      exact refAt_contained hx
    | sub off cnt => simp [derive] at h
    | off cnt => simp [derive] at h
    | splitL mid => simp [derive] at h
    | splitR mid => simp [derive] at h
    | getRef off t => simp [derive] at h
    | getArr off n t => simp [derive] at h
    | sliceToArr => simp [derive] at h
    | refToSlice => simp [derive] at h

/-- containment plus preservation of the invariant -/
theorem derive_contained (a a' : Acc) (op : DOp) (hwf : a.WF) (h : derive a op = .ok a') :
    a.lo ≤ a'.lo ∧ a'.hi ≤ a.hi ∧ a'.WF :=
  have hin := derive_inside h
  ⟨hin.1, hin.2, hwf.of_inside hin⟩

/-- the same for the `isize` invariant -/
theorem derive_contained_isize (a a' : Acc) (op : DOp) (hwf : a.WFI)
    (h : derive a op = .ok a') : a.lo ≤ a'.lo ∧ a'.hi ≤ a.hi ∧ a'.WFI :=
  have hin := derive_inside h
  ⟨hin.1, hin.2, hwf.of_inside hin⟩

/-! ## §2 chains of any depth -/

theorem deriveChain_cons_ok {a b : Acc} {op : DOp} {ops : List DOp}
    (h : deriveChain a (op :: ops) = .ok b) :
    ∃ a', derive a op = .ok a' ∧ deriveChain a' ops = .ok b := by
  simp only [deriveChain] at h
  exact (Res.bind_eq_ok _ _ _).1 h

/-- every chain of any depth stays inside the root; no hypothesis on the root -/
theorem chain_inside {root a : Acc} {ops : List DOp} (h : deriveChain root ops = .ok a) :
    root.lo ≤ a.lo ∧ a.hi ≤ root.hi := by
  induction ops generalizing root with
  | nil =>
    simp only [deriveChain, Res.ok.injEq] at h
    subst h
    exact ⟨Nat.le_refl _, Nat.le_refl _⟩
  | cons op ops ih =>
    obtain ⟨a', h1, h2⟩ := deriveChain_cons_ok h
    have := derive_inside h1
    have := ih h2
    omega

theorem chain_contained (root : Acc) (hwf : root.WF) (ops : List DOp) (a : Acc)
    (h : deriveChain root ops = .ok a) : root.lo ≤ a.lo ∧ a.hi ≤ root.hi ∧ a.WF :=
  have hin := chain_inside h
  ⟨hin.1, hin.2, hwf.of_inside hin⟩

theorem chain_contained_isize (root : Acc) (hwf : root.WFI) (ops : List DOp) (a : Acc)
    (h : deriveChain root ops = .ok a) : root.lo ≤ a.lo ∧ a.hi ≤ root.hi ∧ a.WFI :=
  have hin := chain_inside h
  ⟨hin.1, hin.2, hwf.of_inside hin⟩

/-- chains compose -/
theorem deriveChain_append (a : Acc) (ops1 ops2 : List DOp) :
    deriveChain a (ops1 ++ ops2) = deriveChain a ops1 >>= fun b => deriveChain b ops2 := by
  induction ops1 generalizing a with
  | nil => rfl
  | cons op ops ih =>
    simp only [List.cons_append, deriveChain]
    cases derive a op with
    | ok a' => simp only [Res.bind_ok]; exact ih a'
    | err e => rfl
    | panic => rfl

/-- every intermediate accessor of a chain is inside its *direct* parent (and the
    parent is inside the root): the statement for the last step of `ops ++ [op]`;
    by induction it covers every step. -/
theorem chain_snoc (root : Acc) (ops : List DOp) (op : DOp) (a : Acc)
    (h : deriveChain root (ops ++ [op]) = .ok a) :
    ∃ p, deriveChain root ops = .ok p ∧ derive p op = .ok a ∧
      (p.lo ≤ a.lo ∧ a.hi ≤ p.hi) ∧ (root.lo ≤ p.lo ∧ p.hi ≤ root.hi) := by
  rw [deriveChain_append] at h
  obtain ⟨p, hp, hstep⟩ := (Res.bind_eq_ok _ _ _).1 h
  obtain ⟨a', ha', hnil⟩ := deriveChain_cons_ok hstep
  simp only [deriveChain, Res.ok.injEq] at hnil
  subst hnil
  exact ⟨p, hp, ha', derive_inside ha', chain_inside hp⟩

/-- a chain that succeeds has succeeded at every prefix -/
theorem chain_prefix_ok (root : Acc) (ops1 ops2 : List DOp) (a : Acc)
    (h : deriveChain root (ops1 ++ ops2) = .ok a) :
    ∃ p, deriveChain root ops1 = .ok p ∧ deriveChain p ops2 = .ok a ∧
      (p.lo ≤ a.lo ∧ a.hi ≤ p.hi) ∧ (root.lo ≤ p.lo ∧ p.hi ≤ root.hi) := by
  rw [deriveChain_append] at h
  obtain ⟨p, hp, hrest⟩ := (Res.bind_eq_ok _ _ _).1 h
  exact ⟨p, hp, hrest, chain_inside hrest, chain_inside hp⟩

/-! ## §3 exact acceptance conditions, result fields, error classification -/

theorem subslice_ok_iff (s : VSlice) (off cnt : Nat) :
    (∃ s', s.subslice off cnt = .ok s') ↔ off + cnt < U ∧ off + cnt ≤ s.size := by
  rw [subslice_eq]
  by_cases h1 : off + cnt < U
  · by_cases h2 : off + cnt ≤ s.size <;> simp [h1, h2]
  · simp [h1]

theorem subslice_val {s s' : VSlice} {off cnt : Nat} (h : s.subslice off cnt = .ok s') :
    s'.addr = s.addr + off ∧ s'.size = cnt ∧ s'.bmBase = sliceAt s.bmBase off :=
  (subslice_ok h).2.2

theorem subslice_err_overflow (s : VSlice) (off cnt : Nat) (h : U ≤ off + cnt) :
    s.subslice off cnt = .err .overflow := by
  rw [subslice_eq, if_neg (by omega)]

theorem subslice_err_oob (s : VSlice) (off cnt : Nat) (h1 : off + cnt < U)
    (h2 : s.size < off + cnt) : s.subslice off cnt = .err .outOfBounds := by
  rw [subslice_eq, if_pos h1, if_neg (by omega)]

theorem offset_ok_iff (s : VSlice) (cnt : Nat) :
    (∃ s', s.offset cnt = .ok s') ↔ s.addr + cnt < U ∧ cnt ≤ s.size := by
  rw [offset_eq]
  by_cases h1 : s.addr + cnt < U
  · by_cases h2 : cnt ≤ s.size <;> simp [h1, h2]
  · simp [h1]

theorem offset_val {s s' : VSlice} {cnt : Nat} (h : s.offset cnt = .ok s') :
    s'.addr = s.addr + cnt ∧ s'.size = s.size - cnt ∧ s'.bmBase = sliceAt s.bmBase cnt :=
  (offset_ok h).2.2

theorem offset_err_overflow (s : VSlice) (cnt : Nat) (h : U ≤ s.addr + cnt) :
    s.offset cnt = .err .overflow := by
  rw [offset_eq, if_neg (by omega)]

theorem offset_err_oob (s : VSlice) (cnt : Nat) (h1 : s.addr + cnt < U) (h2 : s.size < cnt) :
    s.offset cnt = .err .outOfBounds := by
  rw [offset_eq, if_pos h1, if_neg (by omega)]

/-- for a slice that ends below the top of the address space the pointer addition of
    `offset` cannot be the deciding check: acceptance is exactly `cnt ≤ size`.
    (Corner: a slice ending exactly at address `2^64` satisfies `Acc.WF`, and
    `offset size` on it answers `Overflow` while `subslice size 0` succeeds.) -/
theorem offset_ok_iff_of_end_lt (s : VSlice) (cnt : Nat) (hend : s.addr + s.size < U) :
    (∃ s', s.offset cnt = .ok s') ↔ cnt ≤ s.size := by
  rw [offset_ok_iff]
  constructor
  · exact fun h => h.2
  · intro h; exact ⟨by omega, h⟩

theorem splitAt_ok_iff (s : VSlice) (mid : Nat) :
    (∃ p, s.splitAt mid = .ok p) ↔ s.addr + mid < U ∧ mid ≤ s.size := by
  rw [splitAt_eq]
  by_cases h1 : s.addr + mid < U
  · by_cases h2 : mid ≤ s.size <;> simp [h1, h2]
  · simp [h1]

theorem splitAt_val {s l r : VSlice} {mid : Nat} (h : s.splitAt mid = .ok (l, r)) :
    l.addr = s.addr ∧ l.size = mid ∧ l.bmBase = s.bmBase ∧
      r.addr = s.addr + mid ∧ r.size = s.size - mid ∧ r.bmBase = sliceAt s.bmBase mid :=
  (splitAt_ok h).2.2

theorem splitAt_err_overflow (s : VSlice) (mid : Nat) (h : U ≤ s.addr + mid) :
    s.splitAt mid = .err .overflow := by
  rw [splitAt_eq, if_neg (by omega)]

theorem splitAt_err_oob (s : VSlice) (mid : Nat) (h1 : s.addr + mid < U) (h2 : s.size < mid) :
    s.splitAt mid = .err .outOfBounds := by
  rw [splitAt_eq, if_pos h1, if_neg (by omega)]

theorem getRef_ok_iff (s : VSlice) (off : Nat) (t : Ty) :
    (∃ r, s.getRef off t = .ok r) ↔ off + t.size < U ∧ off + t.size ≤ s.size := by
  rw [getRef_eq]
  by_cases h1 : off + t.size < U
  · by_cases h2 : off + t.size ≤ s.size <;> simp [h1, h2]
  · simp [h1]

theorem getRef_val {s : VSlice} {r : VRef} {off : Nat} {t : Ty} (h : s.getRef off t = .ok r) :
    r.addr = s.addr + off ∧ r.ty = t ∧ r.bmBase = sliceAt s.bmBase off :=
  (getRef_ok h).2.2

theorem getRef_err_overflow (s : VSlice) (off : Nat) (t : Ty) (h : U ≤ off + t.size) :
    s.getRef off t = .err .overflow := by
  rw [getRef_eq, if_neg (by omega)]

theorem getRef_err_oob (s : VSlice) (off : Nat) (t : Ty) (h1 : off + t.size < U)
    (h2 : s.size < off + t.size) : s.getRef off t = .err .outOfBounds := by
  rw [getRef_eq, if_pos h1, if_neg (by omega)]

theorem getArrayRef_ok_iff (s : VSlice) (off n : Nat) (t : Ty) :
    (∃ a, s.getArrayRef off n t = .ok a) ↔
      n ≤ ISIZE_MAX ∧ n * t.size ≤ ISIZE_MAX ∧ off + n * t.size < U ∧
        off + n * t.size ≤ s.size := by
  rw [getArrayRef_eq]
  by_cases h0 : n ≤ ISIZE_MAX ∧ n * t.size ≤ ISIZE_MAX
  · by_cases h1 : off + n * t.size < U
    · by_cases h2 : off + n * t.size ≤ s.size <;> simp [h0, h1, h2]
    · simp [h0, h1]
  · rw [if_neg h0]
    constructor
    · rintro ⟨a, ha⟩; cases ha
    · rintro ⟨h1, h2, -, -⟩; exact absurd ⟨h1, h2⟩ h0

theorem getArrayRef_val {s : VSlice} {a : VArr} {off n : Nat} {t : Ty}
    (h : s.getArrayRef off n t = .ok a) :
    a.addr = s.addr + off ∧ a.nelem = n ∧ a.ty = t ∧ a.bmBase = sliceAt s.bmBase off :=
  (getArrayRef_ok h).2.2.2.2

theorem getArrayRef_err_tooBig (s : VSlice) (off n : Nat) (t : Ty)
    (h : ISIZE_MAX < n ∨ ISIZE_MAX < n * t.size) : s.getArrayRef off n t = .err .tooBig := by
  rw [getArrayRef_eq, if_neg (by omega)]

theorem getArrayRef_err_overflow (s : VSlice) (off n : Nat) (t : Ty)
    (h0 : n ≤ ISIZE_MAX ∧ n * t.size ≤ ISIZE_MAX) (h : U ≤ off + n * t.size) :
    s.getArrayRef off n t = .err .overflow := by
  rw [getArrayRef_eq, if_pos h0, if_neg (by omega)]

theorem getArrayRef_err_oob (s : VSlice) (off n : Nat) (t : Ty)
    (h0 : n ≤ ISIZE_MAX ∧ n * t.size ≤ ISIZE_MAX) (h1 : off + n * t.size < U)
    (h2 : s.size < off + n * t.size) : s.getArrayRef off n t = .err .outOfBounds := by
  rw [getArrayRef_eq, if_pos h0, if_pos h1, if_neg (by omega)]

theorem refAt_val {a : VArr} {r : VRef} {i : Nat} (h : a.refAt i = .ok r) :
    r.addr = a.addr + a.ty.size * i ∧ r.ty = a.ty ∧
      r.bmBase = sliceAt a.bmBase (a.ty.size * i) :=
  (refAt_ok h).2.2

theorem refAt_ok_iff (a : VArr) (hwf : (Acc.ar a).WF) (i : Nat) :
    (∃ r, a.refAt i = .ok r) ↔ i < a.nelem := by
  rw [refAt_eq]
  by_cases h1 : i < a.nelem
  · have h2 : a.ty.size * i < U := by
      have := @elem_ofs_le a.ty.size i a.nelem h1
      simp only [Acc.WF, Acc.bytes] at hwf
      omega
    simp [h1, h2]
  · simp [h1]

theorem arrToSlice_val {a : VArr} {s : VSlice} (h : a.toSlice = .ok s) :
    s.addr = a.addr ∧ s.size = a.nelem * a.ty.size ∧ s.bmBase = a.bmBase :=
  (arrToSlice_ok h).2

theorem arrToSlice_ok_of_wf (a : VArr) (hwf : (Acc.ar a).WF) :
    a.toSlice = .ok { addr := a.addr, size := a.nelem * a.ty.size, bmBase := a.bmBase } := by
  rw [arrToSlice_eq, if_pos (show a.nelem * a.ty.size < U from hwf.2)]

theorem refToSlice_val (r : VRef) :
    r.toSlice.addr = r.addr ∧ r.toSlice.size = r.ty.size ∧ r.toSlice.bmBase = r.bmBase :=
  ⟨rfl, rfl, rfl⟩

theorem toArr_val (s : VSlice) :
    s.toArr.addr = s.addr ∧ s.toArr.nelem = s.size ∧ s.toArr.ty = ⟨1, 1⟩ ∧
      s.toArr.bmBase = s.bmBase :=
  ⟨rfl, rfl, rfl, rfl⟩

/-! ## §4 a misfit is an error, never a panic -/

/-- `ref_at` is the one derivation with an `assert!`: it panics exactly for an index
    that is not below the element count (documented behaviour of the crate). -/
theorem refAt_panics_iff (a : VArr) (hwf : (Acc.ar a).WF) (i : Nat) :
    a.refAt i = .panic ↔ a.nelem ≤ i := by
  rw [refAt_eq]
  by_cases h1 : i < a.nelem
  · have h2 : a.ty.size * i < U := by
      have := @elem_ofs_le a.ty.size i a.nelem h1
      simp only [Acc.WF, Acc.bytes] at hwf
      omega
    simp [h1, h2]
  · simp [h1]
    omega

/-- `ref_at` never returns an error value -/
theorem refAt_ne_err (a : VArr) (i : Nat) (e : Err) : a.refAt i ≠ .err e := by
  rw [refAt_eq]
  split
  · split <;> simp
  · simp

theorem arrToSlice_no_panic (a : VArr) (hwf : (Acc.ar a).WF) : a.toSlice ≠ .panic := by
  rw [arrToSlice_ok_of_wf a hwf]; simp

/-- every derivation function applied to ANY operands returns `ok` or `err`, never
    `panic`; the only exception is the documented `assert!` of `ref_at`. -/
theorem derive_no_panic (a : Acc) (hwf : a.WF) (op : DOp)
    (hop : ∀ i, op = .refAt i → ∀ arr, a = .ar arr → i < arr.nelem) :
    derive a op ≠ .panic := by
  cases a with
  | sl s =>
    cases op with
    | sub off cnt => simp only [derive, ne_eq, mapOk_eq_panic]; exact subslice_ne_panic _ _ _
    | off cnt => simp only [derive, ne_eq, mapOk_eq_panic]; exact offset_ne_panic _ _
    | splitL mid => simp only [derive, ne_eq, mapOk_eq_panic]; exact splitAt_ne_panic _ _
    | splitR mid => simp only [derive, ne_eq, mapOk_eq_panic]; exact splitAt_ne_panic _ _
    | getRef off t => simp only [derive, ne_eq, mapOk_eq_panic]; exact getRef_ne_panic _ _ _
    | getArr off n t =>
      simp only [derive, ne_eq, mapOk_eq_panic]; exact getArrayRef_ne_panic _ _ _ _
    | sliceToArr => simp [derive]
    | refToSlice => simp [derive]
    | arrToSlice => simp [derive]
    | refAt i => simp [derive]
  | rf r => cases op <;> simp [derive]
  | ar arr =>
    cases op with
    | arrToSlice =>
      simp only [derive, ne_eq, mapOk_eq_panic]; exact arrToSlice_no_panic arr hwf
    | refAt i =>
      simp only [derive, ne_eq, mapOk_eq_panic]
      rw [refAt_panics_iff arr hwf]
      have := hop i rfl arr rfl
      omega
    | sub off cnt => simp [derive]
    | off cnt => simp [derive]
    | splitL mid => simp [derive]
    | splitR mid => simp [derive]
    | getRef off t => simp [derive]
    | getArr off n t => simp [derive]
    | sliceToArr => simp [derive]
    | refToSlice => simp [derive]

/-- a request is answered with an accessor or with an error value -/
theorem derive_ok_or_err (a : Acc) (hwf : a.WF) (op : DOp)
    (hop : ∀ i, op = .refAt i → ∀ arr, a = .ar arr → i < arr.nelem) :
    (∃ a', derive a op = .ok a') ∨ (∃ e, derive a op = .err e) := by
  have := derive_no_panic a hwf op hop
  cases h : derive a op with
  | ok a' => exact .inl ⟨a', rfl⟩
  | err e => exact .inr ⟨e, rfl⟩
  | panic => exact absurd h this

/-- the functions that take caller-chosen offsets / lengths / counts never panic, with
    no hypothesis whatsoever on the slice or the operands -/
theorem misfit_is_error (s : VSlice) (off cnt n : Nat) (t : Ty) :
    s.subslice off cnt ≠ .panic ∧ s.offset cnt ≠ .panic ∧ s.splitAt cnt ≠ .panic ∧
      s.getRef off t ≠ .panic ∧ s.getArrayRef off n t ≠ .panic ∧ s.alignedRef off t ≠ .panic :=
  ⟨subslice_ne_panic _ _ _, offset_ne_panic _ _, splitAt_ne_panic _ _, getRef_ne_panic _ _ _,
    getArrayRef_ne_panic _ _ _ _, alignedRef_ne_panic _ _ _⟩

/-- a chain from a well-formed root whose `refAt` indices respect the element counts
    never panics at any depth.  `idxOk` is the side condition on `refAt` steps. -/
def idxOk (a : Acc) (op : DOp) : Prop := ∀ i, op = .refAt i → ∀ arr, a = .ar arr → i < arr.nelem

theorem chain_no_panic (root : Acc) (hwf : root.WF) (ops : List DOp)
    (hidx : ∀ ops1 op ops2 p, ops = ops1 ++ op :: ops2 → deriveChain root ops1 = .ok p → idxOk p op) :
    deriveChain root ops ≠ .panic := by
  induction ops generalizing root with
  | nil => simp [deriveChain]
  | cons op ops ih =>
    simp only [deriveChain]
    have hnp := derive_no_panic root hwf op (hidx [] op ops root rfl rfl)
    cases h : derive root op with
    | panic => exact absurd h hnp
    | err e => simp
    | ok a' =>
      simp only [Res.bind_ok]
      apply ih a' (derive_contained root a' op hwf h).2.2
      intro ops1 op' ops2 p heq hp
      apply hidx (op :: ops1) op' ops2 p (by rw [heq]; rfl)
      simp only [deriveChain, h, Res.bind_ok]
      exact hp

/-! ## §5 typed / atomic references are aligned -/

theorem typed_aligned (s : VSlice) (off : Nat) (t : Ty) (p : Nat)
    (h : s.alignedRef off t = .ok p) :
    p % t.align = 0 ∧ s.addr ≤ p ∧ p + t.size ≤ s.addr + s.size ∧ p = s.addr + off := by
  obtain ⟨h1, h2, h3, h4⟩ := alignedRef_ok h
  subst h4
  exact ⟨h3, by omega, by omega, rfl⟩

theorem alignedRef_err_misaligned (s : VSlice) (off : Nat) (t : Ty)
    (hfit : off + t.size < U ∧ off + t.size ≤ s.size) (hmis : (s.addr + off) % t.align ≠ 0) :
    s.alignedRef off t = .err .misaligned := by
  rw [alignedRef_eq, if_pos hfit.1, if_pos hfit.2, if_neg hmis]

theorem alignedRef_ok_iff (s : VSlice) (off : Nat) (t : Ty) :
    (∃ p, s.alignedRef off t = .ok p) ↔
      off + t.size < U ∧ off + t.size ≤ s.size ∧ (s.addr + off) % t.align = 0 := by
  rw [alignedRef_eq]
  by_cases h1 : off + t.size < U
  · by_cases h2 : off + t.size ≤ s.size
    · by_cases h3 : (s.addr + off) % t.align = 0 <;> simp [h1, h2, h3]
    · simp [h1, h2]
  · simp [h1]

/-- the bounds checks take precedence over the alignment check -/
theorem alignedRef_err_overflow (s : VSlice) (off : Nat) (t : Ty) (h : U ≤ off + t.size) :
    s.alignedRef off t = .err .overflow := by
  rw [alignedRef_eq, if_neg (by omega)]

theorem alignedRef_err_oob (s : VSlice) (off : Nat) (t : Ty) (h1 : off + t.size < U)
    (h2 : s.size < off + t.size) : s.alignedRef off t = .err .outOfBounds := by
  rw [alignedRef_eq, if_pos h1, if_neg (by omega)]

/-! ## §6 array byte length fits `isize` -/

theorem array_bytes_fit_isize (s : VSlice) (off n : Nat) (t : Ty) (a : VArr)
    (h : s.getArrayRef off n t = .ok a) : a.nelem * a.ty.size ≤ ISIZE_MAX := by
  obtain ⟨-, h2, -, -, -, h6, h7, -⟩ := getArrayRef_ok h
  rw [h6, h7]; exact h2

theorem array_nelem_fit_isize (s : VSlice) (off n : Nat) (t : Ty) (a : VArr)
    (h : s.getArrayRef off n t = .ok a) : a.nelem ≤ ISIZE_MAX := by
  obtain ⟨h1, -, -, -, -, h6, -, -⟩ := getArrayRef_ok h
  rw [h6]; exact h1

/-! ## §7 pointer guards -/

theorem guard_slice (s : VSlice) : s.guardLen = (Acc.sl s).bytes := rfl

theorem guard_ref (r : VRef) : r.guardLen = (Acc.rf r).bytes := rfl

/-- `VolatileArrayRef::ptr_guard{,_mut}` span the array in bytes (full-strength statement;
    it holds since the `fix:` commit "VolatileArrayRef pointer guards must span the array in bytes"). -/
theorem guard_arr (a : VArr) : a.guardLen = (Acc.ar a).bytes := rfl

/-- record of defect D3: the source used to pass `self.len()` — the element *count* — as the
    guard length, which equals the byte length only for one-byte elements. -/
def guardLenBeforeFix (a : VArr) : Nat := a.nelem

theorem guard_arr_before_fix_partial (a : VArr) (h1 : a.ty.size = 1) :
    guardLenBeforeFix a = (Acc.ar a).bytes := by
  simp [guardLenBeforeFix, Acc.bytes, h1]

/-- 5 elements of size 4 — the old guard said 5, the bytes are 20 -/
theorem guard_arr_defect_before_fix :
    ∃ a : VArr, (Acc.ar a).WFI ∧ guardLenBeforeFix a = 5 ∧ (Acc.ar a).bytes = 20 :=
  ⟨{ addr := 0x1000, nelem := 5, bmBase := 0, ty := ⟨4, 4⟩ }, by decide, rfl, rfl⟩

/-! ## §8 the root view and `Mem.inBounds` -/

/-- the region does not wrap and its length is a `usize` value -/
theorem root_wf (m : Mem) (h : m.base + m.bytes.length ≤ U) (hsz : m.bytes.length < U) :
    (Acc.sl m.root).WF := ⟨h, hsz⟩

/-- a region at a non-null base needs only the no-wrap hypothesis -/
theorem root_wf_of_base_pos (m : Mem) (h : m.base + m.bytes.length ≤ U) (hb : 0 < m.base) :
    (Acc.sl m.root).WF := by
  refine ⟨h, ?_⟩
  simp only [Acc.bytes, Mem.root]
  omega

theorem root_wfi (m : Mem) (h : m.base + m.bytes.length ≤ U) (hsz : m.bytes.length ≤ ISIZE_MAX) :
    (Acc.sl m.root).WFI := ⟨h, hsz⟩

/-- any accessor obtained by a chain of any depth from the root view of `m` passes the
    bounds test of the raw data-movement functions -/
theorem chain_in_bounds (m : Mem) (ops : List DOp) (a : Acc)
    (h : deriveChain (.sl m.root) ops = .ok a) : m.inBounds a.lo a.bytes = true := by
  have hin := chain_inside h
  unfold Acc.hi at hin
  have e1 : (Acc.sl m.root).lo = m.base := rfl
  have e2 : (Acc.sl m.root).bytes = m.bytes.length := rfl
  rw [e1, e2] at hin
  simp only [Mem.inBounds, Bool.or_eq_true, beq_iff_eq, Bool.and_eq_true, decide_eq_true_eq]
  right
  omega

/-- … and so does every prefix of it (partial transfers) -/
theorem chain_in_bounds_prefix (m : Mem) (ops : List DOp) (a : Acc) (n : Nat)
    (h : deriveChain (.sl m.root) ops = .ok a) (hn : n ≤ a.bytes) :
    m.inBounds a.lo n = true := by
  have hin := chain_inside h
  unfold Acc.hi at hin
  have e1 : (Acc.sl m.root).lo = m.base := rfl
  have e2 : (Acc.sl m.root).bytes = m.bytes.length := rfl
  rw [e1, e2] at hin
  simp only [Mem.inBounds, Bool.or_eq_true, beq_iff_eq, Bool.and_eq_true, decide_eq_true_eq]
  right
  omega

/-- hence `readAt` / `writeAt` on it never reach their out-of-bounds `panic` branch -/
theorem chain_readAt_no_panic (m : Mem) (ops : List DOp) (a : Acc) (n : Nat)
    (h : deriveChain (.sl m.root) ops = .ok a) (hn : n ≤ a.bytes) :
    m.readAt a.lo n ≠ .panic := by
  simp [Mem.readAt, chain_in_bounds_prefix m ops a n h hn]

theorem chain_writeAt_no_panic (m : Mem) (ops : List DOp) (a : Acc) (d : List UInt8)
    (h : deriveChain (.sl m.root) ops = .ok a) (hn : d.length ≤ a.bytes) :
    m.writeAt a.lo d ≠ .panic := by
  simp [Mem.writeAt, chain_in_bounds_prefix m ops a d.length h hn]

/-! ## §9 non-vacuity -/

/-- a root at base address 0x1003 of size 300 -/
def exMem : Mem := { base := 0x1003, bytes := List.replicate 300 0, bm := none }

/-- its root view -/
def exRoot : VSlice := { addr := 0x1003, size := 300, bmBase := 0 }

theorem exMem_root : exMem.root = exRoot := by
  show VSlice.mk 0x1003 (List.replicate 300 (0 : UInt8)).length 0 = VSlice.mk 0x1003 300 0
  rw [List.length_replicate]

/-- depth 6: sub, off, splitR, getArr, refAt, refToSlice -/
example :
    deriveChain (.sl exMem.root)
      [.sub 3 200, .off 10, .splitR 30, .getArr 2 10 ⟨4, 4⟩, .refAt 3, .refToSlice]
      = .ok (.sl { addr := 0x103c, size := 4, bmBase := 57 }) := by rw [exMem_root]; decide

/-- depth 8, through every accessor kind and back -/
example :
    deriveChain (.sl exMem.root)
      [.sub 3 200, .off 10, .splitR 30, .getArr 2 10 ⟨4, 4⟩, .arrToSlice, .sliceToArr,
       .refAt 39, .refToSlice, .splitL 1, .getRef 0 ⟨1, 1⟩]
      = .ok (.rf { addr := 0x1057, bmBase := 84, ty := ⟨1, 1⟩ }) := by rw [exMem_root]; decide

/-- the typed reference of the first chain is 4-aligned -/
example : (VSlice.mk 0x102e 160 43).alignedRef 14 ⟨4, 4⟩ = .ok 0x103c := by decide
/-- … and one byte further it is refused -/
example : (VSlice.mk 0x102e 160 43).alignedRef 15 ⟨4, 4⟩ = .err .misaligned := by decide

/-- an overflowing request -/
example : exMem.root.subslice (U - 1) 2 = .err .overflow := by rw [exMem_root]; decide
example : derive (.sl exMem.root) (.sub (U - 1) 2) = .err .overflow := by rw [exMem_root]; decide
example : exMem.root.getRef (U - 1) ⟨2, 2⟩ = .err .overflow := by rw [exMem_root]; decide
example : exMem.root.getArrayRef 0 (ISIZE_MAX + 1) ⟨1, 1⟩ = .err .tooBig := by rw [exMem_root]; decide
example : exMem.root.getArrayRef 0 (2 ^ 62) ⟨4, 4⟩ = .err .tooBig := by rw [exMem_root]; decide
example : (VSlice.mk (U - 8) 8 0).offset 8 = .err .overflow := by decide

/-- `off + cnt = size + 1` is refused, `off + cnt = size` is accepted -/
example : exMem.root.subslice 100 201 = .err .outOfBounds := by rw [exMem_root]; decide
example : exMem.root.subslice 100 200 = .ok { addr := 0x1067, size := 200, bmBase := 100 } := by
  rw [exMem_root]; decide
example : exMem.root.offset 301 = .err .outOfBounds := by rw [exMem_root]; decide
example : exMem.root.offset 300 = .ok { addr := 0x112f, size := 0, bmBase := 300 } := by rw [exMem_root]; decide
example : exMem.root.getArrayRef 0 76 ⟨4, 4⟩ = .err .outOfBounds := by rw [exMem_root]; decide
example : (exMem.root.getArrayRef 0 75 ⟨4, 4⟩).isOk = true := by rw [exMem_root]; decide

/-- the documented `assert!` of `ref_at` -/
example : (VArr.mk 0x1030 10 45 ⟨4, 4⟩).refAt 10 = .panic := by decide
example : (VArr.mk 0x1030 10 45 ⟨4, 4⟩).refAt 9 = .ok { addr := 0x1054, bmBase := 81, ty := ⟨4, 4⟩ } := by
  decide

/-- the hypotheses of the invariants are satisfiable by the example root -/
example : (Acc.sl exMem.root).WFI := by rw [exMem_root]; decide

/-- the corner that makes `bytes < U` necessary in `Acc.WF`: a (fictitious) slice of
    `U` bytes at address 0 satisfies `lo + bytes ≤ U`, yet `toArr` then `toSlice` panics -/
example : deriveChain (.sl { addr := 0, size := U, bmBase := 0 }) [.sliceToArr, .arrToSlice]
    = .panic := by decide

/-- the corner that makes the requested per-kind `WF` (arrays: bytes ≤ ISIZE_MAX) not
    preserved by `sliceToArr` -/
example : ∃ s : VSlice, s.addr + s.size ≤ U ∧ ISIZE_MAX < (Acc.ar s.toArr).bytes :=
  ⟨{ addr := 0, size := 2 ^ 63, bmBase := 0 }, by decide, by decide⟩

/-! ## axioms -/

#print axioms subslice_contained
#print axioms offset_contained
#print axioms splitAt_contained
#print axioms splitAt_partition
#print axioms getRef_contained
#print axioms getArrayRef_contained
#print axioms refAt_contained
#print axioms refToSlice_contained
#print axioms arrToSlice_contained
#print axioms toArr_contained
#print axioms derive_inside
#print axioms derive_contained
#print axioms derive_contained_isize
#print axioms chain_inside
#print axioms chain_contained
#print axioms chain_contained_isize
#print axioms chain_snoc
#print axioms chain_prefix_ok
#print axioms deriveChain_eq_foldlM
#print axioms subslice_ok_iff
#print axioms subslice_val
#print axioms subslice_err_overflow
#print axioms subslice_err_oob
#print axioms offset_ok_iff
#print axioms offset_ok_iff_of_end_lt
#print axioms offset_val
#print axioms offset_err_overflow
#print axioms offset_err_oob
#print axioms splitAt_ok_iff
#print axioms splitAt_val
#print axioms splitAt_err_overflow
#print axioms splitAt_err_oob
#print axioms getRef_ok_iff
#print axioms getRef_val
#print axioms getRef_err_overflow
#print axioms getRef_err_oob
#print axioms getArrayRef_ok_iff
#print axioms getArrayRef_val
#print axioms getArrayRef_err_tooBig
#print axioms getArrayRef_err_overflow
#print axioms getArrayRef_err_oob
#print axioms refAt_val
#print axioms refAt_ok_iff
#print axioms arrToSlice_val
#print axioms arrToSlice_ok_of_wf
#print axioms refToSlice_val
#print axioms toArr_val
#print axioms refAt_panics_iff
#print axioms refAt_ne_err
#print axioms arrToSlice_no_panic
#print axioms derive_no_panic
#print axioms derive_ok_or_err
#print axioms misfit_is_error
#print axioms chain_no_panic
#print axioms typed_aligned
#print axioms alignedRef_err_misaligned
#print axioms alignedRef_ok_iff
#print axioms alignedRef_err_overflow
#print axioms alignedRef_err_oob
#print axioms array_bytes_fit_isize
#print axioms array_nelem_fit_isize
#print axioms guard_slice
#print axioms guard_ref
#print axioms guard_arr
#print axioms guard_arr_before_fix_partial
#print axioms guard_arr_defect_before_fix
#print axioms root_wf
#print axioms root_wf_of_base_pos
#print axioms root_wfi
#print axioms chain_in_bounds
#print axioms chain_in_bounds_prefix
#print axioms chain_readAt_no_panic
#print axioms chain_writeAt_no_panic

/-! ### the provided typed accessors over *any* implementation of `get_slice`

`VolatileMemory::{get_ref, get_array_ref, aligned_as_ref, aligned_as_mut, get_atomic_ref}` are provided methods: they
call the implementor's `get_slice(offset, count)` and then `assert_eq!(slice.len(), count)` before they build an
accessor of `count` bytes at `slice.addr` with `unsafe` code.  For a third-party implementor whose `get_slice` hands
out fewer bytes than asked, that assertion is the only thing between the accessor and the bytes behind the slice. -/
/-- the provided method, for an arbitrary `get_slice`; `aligned` is the `check_alignment` step of the reference forms -/
def typedVia (getSlice : Nat → Nat → Res VSlice) (offset count : Nat) (align : Option Nat) : Res VSlice :=
  match getSlice offset count with
  | .ok s =>
    match align with
    | some a => if s.addr % a ≠ 0 then .err .misaligned else if s.size = count then .ok { s with size := count } else .panic
    | none => if s.size = count then .ok { s with size := count } else .panic
  | .err e => .err e
  | .panic => .panic

/-- **whatever the implementor's `get_slice` returns, a typed accessor is handed out only if it is exactly the slice
    `get_slice` returned** (so it designates only bytes the implementor vouched for), and only at an aligned address -/
theorem typedVia_within (getSlice : Nat → Nat → Res VSlice) (offset count : Nat) (align : Option Nat) (a : VSlice)
    (h : typedVia getSlice offset count align = .ok a) :
    ∃ s, getSlice offset count = .ok s ∧ a.addr = s.addr ∧ a.size = s.size ∧ a.size = count ∧
      (∀ al, align = some al → a.addr % al = 0) := by
  unfold typedVia at h
  cases hs : getSlice offset count with
  | ok s =>
    simp only [hs] at h
    cases align with
    | none =>
      simp only at h
      split at h
      · rename_i hc; injection h with h; subst h; exact ⟨s, rfl, rfl, hc.symm, rfl, by intro al hal; cases hal⟩
      · cases h
    | some al =>
      simp only at h
      split at h
      · cases h
      · rename_i hal
        split at h
        · rename_i hc; injection h with h; subst h
          refine ⟨s, rfl, rfl, hc.symm, rfl, ?_⟩
          intro al' h'; injection h' with h'; subst h'; simpa using hal
        · cases h
  | err e => simp [hs] at h
  | panic => simp [hs] at h

/-- a `get_slice` that comes back short makes the provided method panic (it is never answered with an accessor) -/
theorem typedVia_short_panics (getSlice : Nat → Nat → Res VSlice) (offset count : Nat) (s : VSlice)
    (hs : getSlice offset count = .ok s) (hshort : s.size ≠ count) : typedVia getSlice offset count none = .panic := by
  unfold typedVia; simp [hs, hshort]


end C01
end VmMem
#print axioms VmMem.C01.typedVia_within
#print axioms VmMem.C01.typedVia_short_panics
