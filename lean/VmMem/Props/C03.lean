/-
  VmMem.Props.C03 — `Bytes<GuestAddress>` over a well-formed guest memory, specified against
  the flat sparse byte array `flat m : Nat → Option UInt8`.

  Vocabulary (VmMem.Lemmas.FlatLemmas)
    * `GWF m`          : layout `WF` + every region's container sane (`BmInv`, fits 2^64)
    * `flat m a`       : byte at guest address `a` (`none` in a hole)
    * `runLen m a cap` : longest run of consecutively mapped addresses from `a`, capped at `cap`
    * `SameLayout m m'`: starts / lengths / ids / host bases unchanged

  Remarks on hypotheses.  `buf.length < U` / `len < U` : a Rust slice length is a `usize`.
  Under `WF` it is in fact not needed for the result (a run of mapped addresses is shorter
  than 2^64), but the loop's `total.checked_add(len)` is discharged with it.
-/
import VmMem.Lemmas.FlatLemmas
import VmMem.Props.C18g
namespace VmMem
namespace C03
open GuestLemmas DataLemmas FlatLemmas

/-! ## 1. write -/

/-- `write(buf, addr)` for a non-empty buffer: `InvalidGuestAddress(addr)` (memory untouched)
    iff the first byte is unmapped; otherwise `Ok(k)` with `k` the run length (≥ 1), the first
    `k` bytes of `buf` land — in order — at the guest addresses `addr .. addr + k` (each in the
    region / offset owning that address, across region boundaries), no other byte changes, and
    layout and well-formedness are kept. -/
theorem write_flat (m : GMem) (h : GWF m) (buf : List UInt8) (hb : buf ≠ []) (hl : buf.length < U)
    (addr : Nat) :
    (¬ mapped m addr → m.write buf addr = (m, .err (.invalidGuestAddress addr))) ∧
    (mapped m addr →
      ∃ m', m.write buf addr = (m', .ok (runLen m addr buf.length)) ∧
        0 < runLen m addr buf.length ∧ SameLayout m m' ∧ GWF m' ∧
        ∀ a, flat m' a =
          if addr ≤ a ∧ a < addr + runLen m addr buf.length then buf[a - addr]? else flat m a) := by
  have hpos : 0 < buf.length := List.length_pos_iff.2 hb
  have hne : ¬ buf.length = 0 := by omega
  obtain ⟨m', hres, hz, hsl, hg, hfl⟩ := loop_write buf hl addr buf.length m addr 0 h rfl hpos
  simp only [Nat.sub_zero, Nat.zero_add] at hres hz hfl
  have hw : m.write buf addr =
      ((GMem.tryAccessLoop (wcb buf) buf.length addr m () addr 0).1,
       (GMem.tryAccessLoop (wcb buf) buf.length addr m () addr 0).2.2) := by
    rw [write_eq_loop]
    unfold GMem.tryAccess
    rw [if_neg hne]
  rw [hw, hres]
  constructor
  · intro hun
    have h0 := runLen_unmapped hun buf.length
    rw [if_pos ⟨h0, trivial⟩, hz h0]
  · intro hm
    have hk := runLen_pos hm hpos
    refine ⟨m', ?_, hk, hsl, hg, hfl⟩
    rw [if_neg (by omega)]

/-- the result alone, as one equation -/
theorem write_result (m : GMem) (h : GWF m) (buf : List UInt8) (hb : buf ≠ []) (hl : buf.length < U)
    (addr : Nat) :
    (m.write buf addr).2 =
      if mapped m addr then .ok (runLen m addr buf.length) else .err (.invalidGuestAddress addr) := by
  obtain ⟨h1, h2⟩ := write_flat m h buf hb hl addr
  by_cases hm : mapped m addr
  · obtain ⟨m', hw, _⟩ := h2 hm
    rw [hw, if_pos hm]
  · rw [h1 hm, if_neg hm]

/-- it fails with an invalid-address error only when the first byte is unmapped; never a panic -/
theorem write_err_iff (m : GMem) (h : GWF m) (buf : List UInt8) (hb : buf ≠ []) (hl : buf.length < U)
    (addr : Nat) :
    ((m.write buf addr).2 = .err (.invalidGuestAddress addr) ↔ ¬ mapped m addr) ∧
    (∀ e, (m.write buf addr).2 = .err e → e = .invalidGuestAddress addr) ∧
    (m.write buf addr).2 ≠ .panic := by
  rw [write_result m h buf hb hl addr]
  by_cases hm : mapped m addr
  · rw [if_pos hm]
    exact ⟨by simp [hm], (by intro e he; cases he), by simp⟩
  · rw [if_neg hm]
    exact ⟨by simp [hm], (by intro e he; cases he; rfl), by simp⟩

/-! ## 2. read -/

/-- `read(buf, addr)` for `len > 0`: `InvalidGuestAddress(addr)` iff the first byte is unmapped;
    otherwise the `runLen` bytes of the run, in address order. -/
theorem read_flat (m : GMem) (h : GWF m) (len : Nat) (hpos : 0 < len) (hl : len < U) (addr : Nat) :
    (¬ mapped m addr → m.read len addr = .err (.invalidGuestAddress addr)) ∧
    (mapped m addr →
      ∃ d, m.read len addr = .ok d ∧ d.length = runLen m addr len ∧ 0 < d.length ∧
        ∀ i, i < d.length → d[i]? = flat m (addr + i)) := by
  have hne : ¬ len = 0 := by omega
  obtain ⟨d, hres, hdl, hd⟩ := loop_read h hl addr len [] addr 0 rfl hpos
  simp only [Nat.sub_zero, Nat.zero_add, List.nil_append] at hres hdl
  have hr : GMem.tryAccess (rcb len) m [] len addr =
      GMem.tryAccessLoop (rcb len) len addr m [] addr 0 := by
    unfold GMem.tryAccess
    rw [if_neg hne]
  rw [read_eq_loop, hr, hres]
  constructor
  · intro hun
    have h0 := runLen_unmapped hun len
    rw [if_pos ⟨h0, trivial⟩]
  · intro hm
    have hk := runLen_pos hm hpos
    refine ⟨d, ?_, hdl, by omega, hd⟩
    rw [if_neg (by omega)]

theorem read_err_iff (m : GMem) (h : GWF m) (len : Nat) (hpos : 0 < len) (hl : len < U) (addr : Nat) :
    (m.read len addr = .err (.invalidGuestAddress addr) ↔ ¬ mapped m addr) ∧
    (∀ e, m.read len addr = .err e → e = .invalidGuestAddress addr) ∧
    m.read len addr ≠ .panic := by
  obtain ⟨h1, h2⟩ := read_flat m h len hpos hl addr
  by_cases hm : mapped m addr
  · obtain ⟨d, hd, _⟩ := h2 hm
    rw [hd]
    exact ⟨by simp [hm], (by intro e he; cases he), by simp⟩
  · rw [h1 hm]
    exact ⟨by simp [hm], (by intro e he; cases he; rfl), by simp⟩

/-- a list is determined by its length and its entries -/
theorem ext_of_flat {d d' : List UInt8} (hl : d.length = d'.length)
    (h : ∀ i, i < d.length → d[i]? = d'[i]?) : d = d' := by
  apply List.ext_getElem?
  intro i
  by_cases hi : i < d.length
  · exact h i hi
  · rw [List.getElem?_eq_none (by omega), List.getElem?_eq_none (by omega)]

/-- reads are deterministic functions of `flat`: two well-formed memories with the same
    layout-mappedness and the same flat bytes on the run return the same data -/
theorem read_congr (m m' : GMem) (h : GWF m) (h' : GWF m') (len : Nat) (hpos : 0 < len)
    (hl : len < U) (addr : Nat) (hmap : ∀ a, mapped m' a ↔ mapped m a)
    (hflat : ∀ i, i < runLen m addr len → flat m' (addr + i) = flat m (addr + i)) :
    m'.read len addr = m.read len addr := by
  obtain ⟨h1, h2⟩ := read_flat m h len hpos hl addr
  obtain ⟨h1', h2'⟩ := read_flat m' h' len hpos hl addr
  by_cases hm : mapped m addr
  · obtain ⟨d, hd, hdl, _, hdf⟩ := h2 hm
    obtain ⟨d', hd', hdl', _, hdf'⟩ := h2' ((hmap addr).2 hm)
    rw [runLen_congr hmap] at hdl'
    rw [hd, hd']
    congr 1
    apply ext_of_flat (by rw [hdl, hdl'])
    intro i hi
    rw [hdf' i hi, hdf i (by omega), hflat i (by omega)]
  · rw [h1 hm, h1' (fun x => hm ((hmap addr).1 x))]

/-! ## 3. the all-or-error forms -/

/-- `write_slice`: `Ok(())` iff the whole range is one run of mapped addresses; otherwise the
    prefix of `runLen` bytes IS stored and `PartialBuffer { expected, completed = runLen }` is
    returned — or `InvalidGuestAddress(addr)` with the memory untouched when `addr` is unmapped. -/
theorem writeSlice_flat (m : GMem) (h : GWF m) (buf : List UInt8) (hb : buf ≠ [])
    (hl : buf.length < U) (addr : Nat) :
    (¬ mapped m addr → m.writeSlice buf addr = (m, .err (.invalidGuestAddress addr))) ∧
    (mapped m addr →
      ∃ m', m.writeSlice buf addr =
          (m', if runLen m addr buf.length = buf.length then .ok ()
               else .err (.partialBuffer buf.length (runLen m addr buf.length))) ∧
        SameLayout m m' ∧ GWF m' ∧
        ∀ a, flat m' a =
          if addr ≤ a ∧ a < addr + runLen m addr buf.length then buf[a - addr]? else flat m a) := by
  obtain ⟨h1, h2⟩ := write_flat m h buf hb hl addr
  constructor
  · intro hun
    unfold GMem.writeSlice
    rw [h1 hun]
  · intro hm
    obtain ⟨m', hw, _, hsl, hg, hfl⟩ := h2 hm
    refine ⟨m', ?_, hsl, hg, hfl⟩
    unfold GMem.writeSlice
    rw [hw]
    by_cases hk : runLen m addr buf.length = buf.length
    · simp [hk]
    · simp [hk]

/-- `write_slice` succeeds exactly when every byte of the range is mapped -/
theorem writeSlice_ok_iff (m : GMem) (h : GWF m) (buf : List UInt8) (hb : buf ≠ [])
    (hl : buf.length < U) (addr : Nat) :
    ((m.writeSlice buf addr).2 = .ok () ↔ runLen m addr buf.length = buf.length) ∧
    ((m.writeSlice buf addr).2 = .ok () ↔ ∀ i, i < buf.length → mapped m (addr + i)) := by
  have hpos : 0 < buf.length := List.length_pos_iff.2 hb
  obtain ⟨h1, h2⟩ := writeSlice_flat m h buf hb hl addr
  have key : (m.writeSlice buf addr).2 = .ok () ↔ runLen m addr buf.length = buf.length := by
    by_cases hm : mapped m addr
    · obtain ⟨m', hw, _⟩ := h2 hm
      rw [hw]
      by_cases hk : runLen m addr buf.length = buf.length
      · simp [hk]
      · simp [hk]
    · rw [h1 hm, runLen_unmapped hm]
      constructor
      · intro e; cases e
      · intro e; omega
  exact ⟨key, key.trans (runLen_full_iff m addr buf.length)⟩

/-- `read_slice`: the whole range or an error saying how much was available -/
theorem readSlice_flat (m : GMem) (h : GWF m) (len : Nat) (hpos : 0 < len) (hl : len < U)
    (addr : Nat) :
    (¬ mapped m addr → m.readSlice len addr = .err (.invalidGuestAddress addr)) ∧
    (mapped m addr → runLen m addr len = len →
      ∃ d, m.readSlice len addr = .ok d ∧ d.length = len ∧ ∀ i, i < len → d[i]? = flat m (addr + i)) ∧
    (mapped m addr → runLen m addr len ≠ len →
      m.readSlice len addr = .err (.partialBuffer len (runLen m addr len))) := by
  obtain ⟨h1, h2⟩ := read_flat m h len hpos hl addr
  refine ⟨?_, ?_, ?_⟩
  · intro hun
    unfold GMem.readSlice
    rw [h1 hun]; rfl
  · intro hm hk
    obtain ⟨d, hd, hdl, _, hdf⟩ := h2 hm
    refine ⟨d, ?_, by omega, fun i hi => hdf i (by omega)⟩
    unfold GMem.readSlice
    rw [hd, Res.bind_ok, if_neg (by omega)]
    rfl
  · intro hm hk
    obtain ⟨d, hd, hdl, _, _⟩ := h2 hm
    unfold GMem.readSlice
    rw [hd, Res.bind_ok, if_pos (by omega), hdl]

theorem readSlice_ok_iff (m : GMem) (h : GWF m) (len : Nat) (hpos : 0 < len) (hl : len < U)
    (addr : Nat) :
    (m.readSlice len addr).isOk = true ↔ ∀ i, i < len → mapped m (addr + i) := by
  rw [← runLen_full_iff]
  obtain ⟨h1, h2, h3⟩ := readSlice_flat m h len hpos hl addr
  by_cases hm : mapped m addr
  · by_cases hk : runLen m addr len = len
    · obtain ⟨d, hd, _⟩ := h2 hm hk
      rw [hd]; simp [Res.isOk, hk]
    · rw [h3 hm hk]; simp [Res.isOk, hk]
  · rw [h1 hm, runLen_unmapped hm]
    simp [Res.isOk]; omega

/-- `write_obj` / `read_obj` are the same functions -/
theorem writeObj_eq (m : GMem) (val : List UInt8) (addr : Nat) :
    m.writeObj val addr = m.writeSlice val addr := rfl
theorem readObj_eq (m : GMem) (t : Ty) (addr : Nat) :
    m.readObj t addr = m.readSlice t.size addr := rfl

/-! ## 4. what was written is what is read back, through any route

  Every reading route is a function of `flat` (`read_eq_flatRead`, `readSlice_of_mapped`,
  `region_read_flat`, `flat_via_host`, `load_flat` in §5); every writing route has a flat
  equation.  The corollaries below spell out the combinations the property names. -/

/-- `read` returns the flat read-out of the run -/
theorem read_eq_flatRead (m : GMem) (h : GWF m) (len : Nat) (hpos : 0 < len) (hl : len < U)
    (addr : Nat) (hm : mapped m addr) :
    m.read len addr = .ok (flatRead (flat m) addr (runLen m addr len)) := by
  obtain ⟨d, hd, hdl, _, hdf⟩ := (read_flat m h len hpos hl addr).2 hm
  rw [hd, eq_flatRead hdl (fun i hi => hdf i (by omega))]

/-- a fully mapped range: `read`, `read_slice` and `read_obj` all return its flat read-out -/
theorem readSlice_of_mapped (m : GMem) (h : GWF m) (len : Nat) (hpos : 0 < len) (hl : len < U)
    (addr : Nat) (hrun : ∀ i, i < len → mapped m (addr + i)) :
    m.read len addr = .ok (flatRead (flat m) addr len) ∧
    m.readSlice len addr = .ok (flatRead (flat m) addr len) ∧
    ∀ t : Ty, t.size = len → m.readObj t addr = .ok (flatRead (flat m) addr len) := by
  have hm : mapped m addr := by simpa using hrun 0 hpos
  have hk : runLen m addr len = len := (runLen_full_iff m addr len).2 hrun
  have hr := read_eq_flatRead m h len hpos hl addr hm
  rw [hk] at hr
  have hs : m.readSlice len addr = .ok (flatRead (flat m) addr len) := by
    unfold GMem.readSlice
    rw [hr, Res.bind_ok, if_neg (by rw [flatRead_length]; omega)]
    rfl
  refine ⟨hr, hs, ?_⟩
  intro t ht
  unfold GMem.readObj
  rw [ht]; exact hs

/-- region-level route: `Region::read` on the region owning `a`, at the region offset of `a`,
    returns the flat bytes from `a` up to the end of that region -/
theorem region_read_flat (m : GMem) (h : GWF m) {i : Nat} {r : Region} (hi : m[i]? = some r)
    (a : Nat) (hin : r.start ≤ a ∧ a < r.start + r.len) (n : Nat) (hn : 0 < n) :
    r.read n (a - r.start) = .ok (flatRead (flat m) a (min n (r.start + r.len - a))) := by
  rw [Region.read_ok r (h.regWF hi) n hn (a - r.start) (by omega)]
  have e : r.len - (a - r.start) = r.start + r.len - a := by omega
  rw [e]
  obtain ⟨hlen, hent⟩ := region_window_flat h.1 hi (a - r.start) (min n (r.start + r.len - a))
    (by omega)
  have e2 : r.start + (a - r.start) = a := by omega
  rw [e2] at hent
  rw [eq_flatRead hlen hent]

/-- host-pointer route: the host address `get_host_address(a)` designates, inside the owning
    region's container, exactly the byte `flat m a` -/
theorem flat_via_host (m : GMem) (h : GWF m) (a : Nat) (hm : mapped m a) :
    ∃ (i : Nat) (r : Region) (p : Nat), m[i]? = some r ∧ r.start ≤ a ∧ a < r.start + r.len ∧
      m.getHostAddress a = .ok p ∧ p = r.mem.base + (a - r.start) ∧
      flat m a = r.mem.bytes[p - r.mem.base]? ∧ (flat m a).isSome = true ∧
      r.mem.readAt p 1 = .ok (flat m a).toList := by
  obtain ⟨i, r, hi, hin⟩ := (mapped_iff_getElem? m a).1 hm
  have hfl := flat_of_getElem? h.1 hi hin
  have hp : r.mem.base + (a - r.start) - r.mem.base = a - r.start := by omega
  have hlt : a - r.start < r.mem.bytes.length := by unfold Region.len at hin; omega
  refine ⟨i, r, _, hi, hin.1, hin.2, C02.getHostAddress_of_getElem? h.1 hi hin, rfl, ?_, ?_, ?_⟩
  · rw [hp]; exact hfl
  · exact (flat_isSome_iff h.1 a).2 hm
  · rw [readAt_ok _ _ _ (by omega), hp, hfl]
    congr 1
    apply List.ext_getElem?
    intro j
    rw [take_drop_getElem?]
    cases j with
    | zero => simp [List.getElem?_eq_getElem hlt]
    | succ j => simp [List.getElem?_eq_getElem hlt]

/-- everything a successful `write` establishes -/
structure Wrote (m m' : GMem) (buf : List UInt8) (addr k : Nat) : Prop where
  k_eq : k = runLen m addr buf.length
  pos : 0 < k
  le : k ≤ buf.length
  same : SameLayout m m'
  gwf : GWF m'
  flat_eq : ∀ a, flat m' a = if addr ≤ a ∧ a < addr + k then buf[a - addr]? else flat m a
  run_mapped : ∀ i, i < k → mapped m' (addr + i)

theorem write_post (m : GMem) (h : GWF m) (buf : List UInt8) (hb : buf ≠ []) (hl : buf.length < U)
    (addr : Nat) {m' : GMem} {k : Nat} (hw : m.write buf addr = (m', .ok k)) :
    Wrote m m' buf addr k := by
  obtain ⟨h1, h2⟩ := write_flat m h buf hb hl addr
  by_cases hm : mapped m addr
  · obtain ⟨m'', hw', hpos, hsl, hg, hfl⟩ := h2 hm
    rw [hw] at hw'
    injection hw' with e1 e2
    injection e2 with e2
    subst e1; subst e2
    exact ⟨rfl, hpos, runLen_le m addr buf.length, hsl, hg, hfl,
      fun i hi => (hsl.mapped _).2 (runLen_mapped m addr buf.length i hi)⟩
  · rw [h1 hm] at hw
    injection hw with _ e2
    cases e2

/-- the stored bytes, as a read-out of the new memory -/
theorem Wrote.readout {m m' : GMem} {buf : List UInt8} {addr k : Nat} (w : Wrote m m' buf addr k)
    (a n : Nat) (ha : addr ≤ a) (hfit : a + n ≤ addr + k) :
    flatRead (flat m') a n = (buf.drop (a - addr)).take n := by
  have hle := w.le
  symm
  apply eq_flatRead (take_drop_length _ _ _ (by omega))
  intro i hi
  rw [take_drop_getElem?, if_pos hi, w.flat_eq, if_pos (by omega)]
  congr 1; omega

/-- `write` then `read` at the same address: the same count, the same bytes — whether the
    reader asks for `k` bytes or for the whole buffer length -/
theorem write_read (m : GMem) (h : GWF m) (buf : List UInt8) (hb : buf ≠ []) (hl : buf.length < U)
    (addr : Nat) {m' : GMem} {k : Nat} (hw : m.write buf addr = (m', .ok k)) :
    m'.read k addr = .ok (buf.take k) ∧
    m'.readSlice k addr = .ok (buf.take k) ∧
    m'.read buf.length addr = .ok (buf.take k) := by
  have w := write_post m h buf hb hl addr hw
  have hle := w.le
  have hkpos := w.pos
  have hro := w.readout addr k (Nat.le_refl _) (Nat.le_refl _)
  rw [Nat.sub_self, List.drop_zero] at hro
  obtain ⟨r1, r2, _⟩ := readSlice_of_mapped m' w.gwf k w.pos (by omega) addr w.run_mapped
  rw [hro] at r1 r2
  refine ⟨r1, r2, ?_⟩
  have hm' : mapped m' addr := by simpa using w.run_mapped 0 w.pos
  rw [read_eq_flatRead m' w.gwf buf.length (by omega) hl addr hm', w.same.runLen, ← w.k_eq, hro]

/-- sub-ranges of what was written, through `read` / `read_slice` / `read_obj` -/
theorem write_read_sub (m : GMem) (h : GWF m) (buf : List UInt8) (hb : buf ≠ [])
    (hl : buf.length < U) (addr : Nat) {m' : GMem} {k : Nat} (hw : m.write buf addr = (m', .ok k))
    (a n : Nat) (hn : 0 < n) (ha : addr ≤ a) (hfit : a + n ≤ addr + k) :
    m'.read n a = .ok ((buf.drop (a - addr)).take n) ∧
    m'.readSlice n a = .ok ((buf.drop (a - addr)).take n) ∧
    ∀ t : Ty, t.size = n → m'.readObj t a = .ok ((buf.drop (a - addr)).take n) := by
  have w := write_post m h buf hb hl addr hw
  have hle := w.le
  have hkpos := w.pos
  have hmp : ∀ i, i < n → mapped m' (a + i) := by
    intro i hi
    have := w.run_mapped (a - addr + i) (by omega)
    have e : addr + (a - addr + i) = a + i := by omega
    rwa [e] at this
  have := readSlice_of_mapped m' w.gwf n hn (by omega) a hmp
  rw [w.readout a n ha hfit] at this
  exact this

/-- … and through the region-level route: `Region::read` on the region of the new memory
    owning `a`, for a range that stays inside that region and inside what was written -/
theorem write_region_read (m : GMem) (h : GWF m) (buf : List UInt8) (hb : buf ≠ [])
    (hl : buf.length < U) (addr : Nat) {m' : GMem} {k : Nat} (hw : m.write buf addr = (m', .ok k))
    {i : Nat} {r' : Region} (hi : m'[i]? = some r') (a n : Nat) (hn : 0 < n) (ha : addr ≤ a)
    (hin : r'.start ≤ a) (hfit : a + n ≤ addr + k) (hreg : a + n ≤ r'.start + r'.len) :
    r'.read n (a - r'.start) = .ok ((buf.drop (a - addr)).take n) := by
  have w := write_post m h buf hb hl addr hw
  rw [region_read_flat m' w.gwf hi a ⟨hin, by omega⟩ n hn]
  have e : min n (r'.start + r'.len - a) = n := by omega
  rw [e, w.readout a n ha hfit]

/-- … and through host pointers: every stored byte sits at its host address -/
theorem write_host (m : GMem) (h : GWF m) (buf : List UInt8) (hb : buf ≠ [])
    (hl : buf.length < U) (addr : Nat) {m' : GMem} {k : Nat} (hw : m.write buf addr = (m', .ok k))
    (j : Nat) (hj : j < k) :
    ∃ (i : Nat) (r' : Region) (p : Nat), m'[i]? = some r' ∧ m'.getHostAddress (addr + j) = .ok p ∧
      m.getHostAddress (addr + j) = .ok p ∧ r'.mem.readAt p 1 = .ok [buf[j]'(by
        have := (write_post m h buf hb hl addr hw).le; omega)] := by
  have w := write_post m h buf hb hl addr hw
  have hle := w.le
  have hkpos := w.pos
  obtain ⟨i, r', p, hi, h1, h2, hp, hpe, _, _, hrd⟩ := flat_via_host m' w.gwf (addr + j) (w.run_mapped j hj)
  obtain ⟨r, hr, hkey⟩ := w.same.symm.getElem? hi
  obtain ⟨k1, k2, _, k4⟩ := key_eq hkey
  refine ⟨i, r', p, hi, hp, ?_, ?_⟩
  · rw [C02.getHostAddress_of_getElem? h.1 hr (by omega), hpe, k1, k4]
  · rw [hrd, w.flat_eq, if_pos (by omega)]
    have e : addr + j - addr = j := by omega
    rw [e, List.getElem?_eq_getElem (by omega)]
    rfl

/-! ## 5. store / load -/

/-- an object of type `t` can be accessed atomically at `addr`: some region owns `addr` at
    offset `o`, the object fits that region (`o + size ≤ len`), and its host address is aligned -/
def ObjAt (m : GMem) (t : Ty) (addr : Nat) : Prop :=
  ∃ r ∈ m, r.start ≤ addr ∧ addr < r.start + r.len ∧ (addr - r.start) + t.size ≤ r.len ∧
    (r.mem.base + (addr - r.start)) % t.align = 0

instance (m : GMem) (t : Ty) (addr : Nat) : Decidable (ObjAt m t addr) := by
  unfold ObjAt; infer_instance

theorem ObjAt.mapped {m : GMem} {t : Ty} {addr : Nat} (h : ObjAt m t addr) : mapped m addr := by
  obtain ⟨r, hr, h1, h2, _⟩ := h
  exact ⟨r, hr, h1, h2⟩

theorem ObjAt_iff_key (m : GMem) (t : Ty) (addr : Nat) :
    ObjAt m t addr ↔ ∃ k ∈ m.map key, k.1 ≤ addr ∧ addr < k.1 + k.2.1 ∧
      (addr - k.1) + t.size ≤ k.2.1 ∧ (k.2.2.2 + (addr - k.1)) % t.align = 0 := by
  unfold ObjAt
  constructor
  · rintro ⟨r, hr, h⟩
    exact ⟨key r, List.mem_map.2 ⟨r, hr, rfl⟩, h⟩
  · rintro ⟨k, hk, h⟩
    obtain ⟨r, hr, rfl⟩ := List.mem_map.1 hk
    exact ⟨r, hr, h⟩

theorem ObjAt_congr {m m' : GMem} (h : SameLayout m m') (t : Ty) (addr : Nat) :
    ObjAt m' t addr ↔ ObjAt m t addr := by
  rw [ObjAt_iff_key, ObjAt_iff_key, h]

/-- in a well-formed memory the owner is unique, so `ObjAt` is a statement about THE owner -/
theorem ObjAt_of_owner {m : GMem} (h : WF m) {t : Ty} {addr i : Nat} {r : Region}
    (hi : m[i]? = some r) (hin : r.start ≤ addr ∧ addr < r.start + r.len) :
    ObjAt m t addr ↔
      (addr - r.start) + t.size ≤ r.len ∧ (r.mem.base + (addr - r.start)) % t.align = 0 := by
  constructor
  · rintro ⟨s, hs, h1, h2, h3, h4⟩
    obtain ⟨j, hj⟩ := List.getElem?_of_mem hs
    have := region_unique h hi hj hin ⟨h1, h2⟩
    subst this
    rw [hi] at hj; cases hj
    exact ⟨h3, h4⟩
  · rintro ⟨h3, h4⟩
    exact ⟨r, List.mem_of_getElem? hi, hin.1, hin.2, h3, h4⟩

/-- `store`: `Ok` exactly at an `ObjAt` address — then the first `size_of::<T>()` bytes of the
    value land at `addr ..`, nothing else changes; `InvalidGuestAddress(addr)` iff unmapped;
    otherwise (crosses the end of the owning region, or misaligned) `InvalidBackendAddress`. -/
theorem store_flat (m : GMem) (h : GWF m) (val : List UInt8) (t : Ty) (addr : Nat) :
    (¬ mapped m addr → m.store val t addr = .err (.invalidGuestAddress addr)) ∧
    (mapped m addr → ¬ ObjAt m t addr → m.store val t addr = .err .invalidBackendAddress) ∧
    (ObjAt m t addr →
      ∃ m', m.store val t addr = .ok m' ∧ SameLayout m m' ∧ GWF m' ∧
        ∀ a, flat m' a =
          if addr ≤ a ∧ a < addr + (val.take t.size).length then (val.take t.size)[a - addr]?
          else flat m a) := by
  refine ⟨?_, ?_, ?_⟩
  · intro hun
    unfold GMem.store
    rw [toRegionAddr_of_unmapped h.1 hun]
    rfl
  · intro hm hno
    obtain ⟨i, r, hi, hin⟩ := (mapped_iff_getElem? m addr).1 hm
    rw [ObjAt_of_owner h.1 hi hin] at hno
    unfold GMem.store
    rw [toRegionAddr_of_getElem? h.1 hi hin]
    simp only [Res.bind_ok, hi]
    rw [Region.store_err r (h.regWF hi) val t _ hno]
    rfl
  · intro hob
    obtain ⟨i, r, hi, hin⟩ := (mapped_iff_getElem? m addr).1 hob.mapped
    obtain ⟨hfit, hal⟩ := (ObjAt_of_owner h.1 hi hin).1 hob
    obtain ⟨mem', hok, hst⟩ := Region.store_ok r (h.regWF hi) val t _ hfit hal
    have hkey := key_with_mem r hst.length_eq hst.base
    have hdl : (val.take t.size).length ≤ t.size := by rw [List.length_take]; omega
    refine ⟨m.set i { r with mem := mem' }, ?_, SameLayout.set hi hkey, h.set hi hkey hst.inv, ?_⟩
    · unfold GMem.store
      rw [toRegionAddr_of_getElem? h.1 hi hin]
      simp only [Res.bind_ok, hi]
      rw [hok]
      rfl
    · intro a
      rw [flat_stored h.1 hi hst (by omega)]
      have e : r.start + (addr - r.start) = addr := by omega
      rw [e]

theorem store_ok_iff (m : GMem) (h : GWF m) (val : List UInt8) (t : Ty) (addr : Nat) :
    ((m.store val t addr).isOk = true ↔ ObjAt m t addr) ∧
    (m.store val t addr = .err (.invalidGuestAddress addr) ↔ ¬ mapped m addr) ∧
    m.store val t addr ≠ .panic := by
  obtain ⟨h1, h2, h3⟩ := store_flat m h val t addr
  by_cases hob : ObjAt m t addr
  · obtain ⟨m', hok, _⟩ := h3 hob
    rw [hok]
    exact ⟨by simp [Res.isOk, hob], by simp [hob.mapped], by simp⟩
  · by_cases hm : mapped m addr
    · rw [h2 hm hob]
      exact ⟨by simp [Res.isOk, hob], by simp [hm], by simp⟩
    · rw [h1 hm]
      exact ⟨by simp [Res.isOk, hob], by simp [hm], by simp⟩

/-- `load`: the flat bytes of the object -/
theorem load_flat (m : GMem) (h : GWF m) (t : Ty) (addr : Nat) :
    (¬ mapped m addr → m.load t addr = .err (.invalidGuestAddress addr)) ∧
    (mapped m addr → ¬ ObjAt m t addr → m.load t addr = .err .invalidBackendAddress) ∧
    (ObjAt m t addr → m.load t addr = .ok (flatRead (flat m) addr t.size)) := by
  refine ⟨?_, ?_, ?_⟩
  · intro hun
    unfold GMem.load
    rw [toRegionAddr_of_unmapped h.1 hun]
    rfl
  · intro hm hno
    obtain ⟨i, r, hi, hin⟩ := (mapped_iff_getElem? m addr).1 hm
    rw [ObjAt_of_owner h.1 hi hin] at hno
    unfold GMem.load
    rw [toRegionAddr_of_getElem? h.1 hi hin]
    simp only [Res.bind_ok, hi]
    exact Region.load_err r (h.regWF hi) t _ hno
  · intro hob
    obtain ⟨i, r, hi, hin⟩ := (mapped_iff_getElem? m addr).1 hob.mapped
    obtain ⟨hfit, hal⟩ := (ObjAt_of_owner h.1 hi hin).1 hob
    unfold GMem.load
    rw [toRegionAddr_of_getElem? h.1 hi hin]
    simp only [Res.bind_ok, hi]
    rw [Region.load_ok r (h.regWF hi) t _ hfit hal]
    obtain ⟨hlen, hent⟩ := region_window_flat h.1 hi (addr - r.start) t.size hfit
    have e : r.start + (addr - r.start) = addr := by omega
    rw [e] at hent
    rw [eq_flatRead hlen hent]

/-- `store` then `load` / `read_obj` / `read`: the stored value -/
theorem store_load (m : GMem) (h : GWF m) (val : List UInt8) (t : Ty) (addr : Nat)
    (hval : t.size ≤ val.length) {m' : GMem} (hs : m.store val t addr = .ok m') :
    m'.load t addr = .ok (val.take t.size) ∧
    (0 < t.size → t.size < U → m'.readObj t addr = .ok (val.take t.size) ∧
      m'.read t.size addr = .ok (val.take t.size)) := by
  obtain ⟨_, _, h3⟩ := store_flat m h val t addr
  have hob : ObjAt m t addr := ((store_ok_iff m h val t addr).1).1 (by rw [hs]; rfl)
  obtain ⟨m'', hok, hsl, hg, hfl⟩ := h3 hob
  rw [hs] at hok; cases hok
  have hdl : (val.take t.size).length = t.size := by rw [List.length_take]; omega
  have hro : flatRead (flat m') addr t.size = val.take t.size := by
    symm
    apply eq_flatRead hdl
    intro i hi
    rw [hfl, if_pos (by omega)]
    congr 1; omega
  have hob' : ObjAt m' t addr := (ObjAt_congr hsl t addr).2 hob
  refine ⟨?_, ?_⟩
  · rw [(load_flat m' hg t addr).2.2 hob', hro]
  · intro hpos hU
    obtain ⟨r, hr, h1, h2, h4, _⟩ := hob'
    have hmp : ∀ i, i < t.size → mapped m' (addr + i) :=
      fun i hi => ⟨r, hr, by omega, by omega⟩
    obtain ⟨r1, _, r3⟩ := readSlice_of_mapped m' hg t.size hpos hU addr hmp
    rw [hro] at r1 r3
    exact ⟨r3 t rfl, r1⟩

/-! ## 7. the wrap-to-zero branch of the loop is dead under `WF` -/

/-- pointwise form: at a mapped `cur` of a `WF` layout, for every chunk length `n` the callback
    may return (`n ≤ len = min (rest of region) (rest of count)`), `cur.overflowing_add(n)` is
    `(cur + n, false)`: the loop continues because `ovf = false`, never because the address
    wrapped to `GuestAddress(0)`; and when it continues with `0 < n`, the next address is not 0 -/
theorem no_wrap (m : GMem) (h : WF m) (cur count total : Nat) {i : Nat} {r : Region}
    (hi : m[i]? = some r) (hin : r.start ≤ cur ∧ cur < r.start + r.len) (n : Nat)
    (hn : n ≤ min (r.len - (cur - r.start)) (count - total)) :
    (overflowingAdd cur n).2 = false ∧ (overflowingAdd cur n).1 = cur + n ∧ cur + n < U ∧
      (0 < n → (overflowingAdd cur n).1 ≠ 0) := by
  obtain ⟨he, hle, hU⟩ := no_wrap_step h hi hin (n := n) (by omega)
  rw [he]
  exact ⟨rfl, rfl, by omega, by intro hp; show cur + n ≠ 0; omega⟩

/-- the loop as it would read without the `x @ GuestAddress(0)` alternative: continue only
    when `overflowing_add` did not overflow -/
def loopStrict {σ : Type} (f : GMem → σ → Nat → Nat → Nat → Nat → GMem × σ × Res Nat)
    (count addr : Nat) (m : GMem) (st : σ) (cur total : Nat) : GMem × σ × Res Nat :=
  match m.findRegion cur with
  | .panic => (m, st, .panic)
  | .err e => (m, st, .err e)
  | .ok none => if total = 0 then (m, st, .err (.invalidGuestAddress addr)) else (m, st, .ok total)
  | .ok (some idx) =>
    match m[idx]? with
    | none => (m, st, .panic)
    | some region =>
      match region.toRegionAddr cur with
      | none => (m, st, .panic)
      | some start =>
        if region.len < start ∨ count < total then (m, st, .panic)
        else
          let cap := region.len - start
          let len := min cap (count - total)
          match f m st total len start idx with
          | (m', st', .ok 0) => (m', st', .ok total)
          | (m', st', .ok (k + 1)) =>
            let n := k + 1
            if total + n < U then
              let x := total + n
              if x < count then
                let (c', ovf) := overflowingAdd cur n
                if ovf = false then loopStrict f count addr m' st' c' x
                else (m', st', .err .guestAddressOverflow)
              else if x = count then (m', st', .ok x)
              else (m', st', .err .callbackOutOfRange)
            else (m', st', .err .callbackOutOfRange)
          | (m', st', .err e) => (m', st', .err e)
          | (m', st', .panic) => (m', st', .panic)
termination_by count - total
decreasing_by omega

/-- a callback that, called the way the loop calls it at a mapped address (region index,
    region offset, `len = min (rest of region) (rest of count)`), keeps the invariant `P`
    (which entails `WF`) and never reports more than `len` — every callback of the crate:
    `write`, `read`, `check_range` below -/
structure GoodCb {σ : Type} (P : GMem → Prop) (count : Nat)
    (f : GMem → σ → Nat → Nat → Nat → Nat → GMem × σ × Res Nat) : Prop where
  wf : ∀ m, P m → WF m
  step : ∀ (m : GMem) (st : σ) (total i cur : Nat) (r : Region), P m → m[i]? = some r →
    r.start ≤ cur → cur < r.start + r.len → total < count →
    P (f m st total (min (r.len - (cur - r.start)) (count - total)) (cur - r.start) i).1 ∧
    ∀ n, (f m st total (min (r.len - (cur - r.start)) (count - total)) (cur - r.start) i).2.2 = .ok n →
      n ≤ min (r.len - (cur - r.start)) (count - total)

/-- **no_wrap**: over a `WF` layout the loop never takes the wrapped-to-zero alternative —
    it computes exactly what the loop without that alternative computes -/
theorem no_wrap_loop {σ : Type} (P : GMem → Prop)
    (f : GMem → σ → Nat → Nat → Nat → Nat → GMem × σ × Res Nat) (count addr : Nat)
    (hf : GoodCb P count f) :
    ∀ (n : Nat) (m : GMem) (st : σ) (cur total : Nat), P m → total < count → count - total = n →
      GMem.tryAccessLoop f count addr m st cur total = loopStrict f count addr m st cur total := by
  intro n
  induction n using Nat.strongRecOn with
  | _ n ih =>
    intro m st cur total hP ht hn
    have h := hf.wf m hP
    rw [GMem.tryAccessLoop, loopStrict]
    rcases mapped_or_not m cur with ⟨i, r, hi, hin⟩ | hun
    · rw [findRegion_of_getElem? h hi hin]
      simp only [hi, Region.toRegionAddr_eq hin]
      by_cases hcond : r.len < cur - r.start ∨ count < total
      · rw [if_pos hcond, if_pos hcond]
      · rw [if_neg hcond, if_neg hcond]
        obtain ⟨hkeep, hbd⟩ := hf.step m st total i cur r hP hi hin.1 hin.2 ht
        rcases hfe : f m st total (min (r.len - (cur - r.start)) (count - total)) (cur - r.start) i
          with ⟨m1, st1, res⟩
        rw [hfe] at hkeep hbd
        cases res with
        | err e => rfl
        | panic => rfl
        | ok k =>
          cases k with
          | zero => rfl
          | succ k =>
            simp only
            by_cases hU : total + (k + 1) < U
            · rw [if_pos hU, if_pos hU]
              by_cases hlt : total + (k + 1) < count
              · rw [if_pos hlt, if_pos hlt]
                have hk := hbd (k + 1) rfl
                have hnw := (no_wrap_step h hi hin (n := k + 1) (by omega)).1
                simp only [hnw, or_true, if_true]
                exact ih (count - (total + (k + 1))) (by omega) m1 st1 _ _ hkeep hlt rfl
              · rw [if_neg hlt, if_neg hlt]
            · rw [if_neg hU, if_neg hU]
    · rw [findRegion_of_unmapped h hun]

theorem trivCb_good (count : Nat) : GoodCb WF count trivCb :=
  ⟨fun _ h => h, fun m _ _ _ _ _ hP _ _ _ _ => ⟨hP, fun n hn => by cases hn; exact Nat.le_refl _⟩⟩

theorem wcb_good (buf : List UInt8) : GoodCb GWF buf.length (wcb buf) := by
  refine ⟨fun _ h => h.1, ?_⟩
  intro m st total i cur r hP hi h1 h2 ht
  obtain ⟨mem', hcb, hst⟩ := wcb_step hP buf hi ⟨h1, h2⟩ ht
    (n := min (r.len - (cur - r.start)) (buf.length - total)) rfl
    (min (r.len - (cur - r.start)) (buf.length - total))
  cases st
  rw [hcb]
  exact ⟨hP.set hi (key_with_mem r hst.length_eq hst.base) hst.inv,
    fun n hn => by cases hn; exact Nat.le_refl _⟩

theorem rcb_good (len : Nat) : GoodCb GWF len (rcb len) := by
  refine ⟨fun _ h => h.1, ?_⟩
  intro m st total i cur r hP hi h1 h2 ht
  rw [rcb_step hP len st hi ⟨h1, h2⟩ ht (n := min (r.len - (cur - r.start)) (len - total)) rfl]
  exact ⟨hP, fun n hn => by cases hn; exact Nat.le_refl _⟩

/-- in particular `write` and `read` on a well-formed memory never use the wrap alternative -/
theorem write_read_no_wrap (m : GMem) (h : GWF m) (addr : Nat) :
    (∀ buf : List UInt8, buf ≠ [] →
      GMem.tryAccessLoop (wcb buf) buf.length addr m () addr 0 =
        loopStrict (wcb buf) buf.length addr m () addr 0) ∧
    (∀ (len : Nat) (acc : List UInt8), 0 < len →
      GMem.tryAccessLoop (rcb len) len addr m acc addr 0 =
        loopStrict (rcb len) len addr m acc addr 0) :=
  ⟨fun buf hb => no_wrap_loop GWF (wcb buf) buf.length addr (wcb_good buf) _ m () addr 0 h
      (List.length_pos_iff.2 hb) rfl,
   fun len acc hpos => no_wrap_loop GWF (rcb len) len addr (rcb_good len) _ m acc addr 0 h hpos rfl⟩

/-! ### the wrap IS reachable outside `WF`

  A region ending exactly at `2^64` cannot be built through `GuestRegionMmap::new`
  (`Region.new` rejects `start + len ≥ 2^64`), only by a custom `GuestMemoryRegion`
  implementation; with one, and a region at 0, the loop walks from the top of the address
  space to address 0.  Outside C03's quantifier (`WF` fails). -/

def wrapMem : GMem :=
  [ { start := 0, mem := { base := 0x1000, bytes := [1, 2, 3, 4], bm := none }, id := 1 },
    { start := 0xFFFF_FFFF_FFFF_FFFC, mem := { base := 0x2000, bytes := [5, 6, 7, 8], bm := none }, id := 2 } ]

example : ¬ WF wrapMem := by decide
example : Region.new 0xFFFF_FFFF_FFFF_FFFC { base := 0x2000, bytes := [5, 6, 7, 8], bm := none } = none := by
  decide

/-- the loop as it stood before fix dfb8366 (defect D9): the cursor was allowed to wrap to exactly 0 and the walk went on -/
def loopBeforeFix {σ : Type} (f : GMem → σ → Nat → Nat → Nat → Nat → GMem × σ × Res Nat)
    (count addr : Nat) (m : GMem) (st : σ) (cur total : Nat) : GMem × σ × Res Nat :=
  match m.findRegion cur with
  | .panic => (m, st, .panic)
  | .err e => (m, st, .err e)
  | .ok none => if total = 0 then (m, st, .err (.invalidGuestAddress addr)) else (m, st, .ok total)
  | .ok (some idx) =>
    match m[idx]? with
    | none => (m, st, .panic)
    | some region =>
      match region.toRegionAddr cur with
      | none => (m, st, .panic)
      | some start =>
        if region.len < start ∨ count < total then (m, st, .panic)
        else
          let cap := region.len - start
          let len := min cap (count - total)
          match f m st total len start idx with
          | (m', st', .ok 0) => (m', st', .ok total)
          | (m', st', .ok (k + 1)) =>
            let n := k + 1
            if total + n < U then
              let x := total + n
              if x < count then
                let (c', ovf) := overflowingAdd cur n
                if c' = 0 ∨ ovf = false then loopBeforeFix f count addr m' st' c' x
                else (m', st', .err .guestAddressOverflow)
              else if x = count then (m', st', .ok x)
              else (m', st', .err .callbackOutOfRange)
            else (m', st', .err .callbackOutOfRange)
          | (m', st', .err e) => (m', st', .err e)
          | (m', st', .panic) => (m', st', .panic)
termination_by count - total
decreasing_by omega

/-- D9, as found: four bytes from `2^64 - 2` were two at the top and then — through the `GuestAddress(0)` arm — two at 0 -/
theorem wrap_before_fix : loopBeforeFix trivCb 4 0xFFFF_FFFF_FFFF_FFFE wrapMem () 0xFFFF_FFFF_FFFF_FFFE 0 =
    (wrapMem, (), .ok 4) := by
  have h1 : wrapMem.findRegion 0xFFFF_FFFF_FFFF_FFFE = .ok (some 1) := by decide
  have h2 : wrapMem.findRegion 0 = .ok (some 0) := by decide
  have e0 : wrapMem[0]? = some { start := 0, mem := { base := 0x1000, bytes := [1, 2, 3, 4], bm := none }, id := 1 } := rfl
  have e1 : wrapMem[1]? = some { start := 0xFFFF_FFFF_FFFF_FFFC, mem := { base := 0x2000, bytes := [5, 6, 7, 8], bm := none }, id := 2 } := rfl
  have ov : overflowingAdd 0xFFFF_FFFF_FFFF_FFFE 2 = (0, true) := by decide
  rw [loopBeforeFix, h1]
  simp [e1, trivCb, Region.toRegionAddr, checkedSub, Region.checkAddress, Region.addressInRange,
    Region.len, U, ov]
  rw [loopBeforeFix, h2]
  simp [e0, trivCb, Region.toRegionAddr, checkedSub, Region.checkAddress, Region.addressInRange,
    Region.len, U]

/-- after the fix the walk ends at the last address: two bytes, like at any other hole -/
theorem no_wrap_after_fix : GMem.tryAccessLoop trivCb 4 0xFFFF_FFFF_FFFF_FFFE wrapMem () 0xFFFF_FFFF_FFFF_FFFE 0 =
    (wrapMem, (), .ok 2) := by
  have h1 : wrapMem.findRegion 0xFFFF_FFFF_FFFF_FFFE = .ok (some 1) := by decide
  have e1 : wrapMem[1]? = some { start := 0xFFFF_FFFF_FFFF_FFFC, mem := { base := 0x2000, bytes := [5, 6, 7, 8], bm := none }, id := 2 } := rfl
  have ov : overflowingAdd 0xFFFF_FFFF_FFFF_FFFE 2 = (0, true) := by decide
  rw [GMem.tryAccessLoop, h1]
  simp [e1, trivCb, Region.toRegionAddr, checkedSub, Region.checkAddress, Region.addressInRange,
    Region.len, U, ov]

/-- … whereas the loop without that arm reports `GuestAddressOverflow` -/
example : loopStrict trivCb 4 0xFFFF_FFFF_FFFF_FFFE wrapMem () 0xFFFF_FFFF_FFFF_FFFE 0 =
    (wrapMem, (), .err .guestAddressOverflow) := by
  have h1 : wrapMem.findRegion 0xFFFF_FFFF_FFFF_FFFE = .ok (some 1) := by decide
  have e1 : wrapMem[1]? = some { start := 0xFFFF_FFFF_FFFF_FFFC, mem := { base := 0x2000, bytes := [5, 6, 7, 8], bm := none }, id := 2 } := rfl
  have ov : overflowingAdd 0xFFFF_FFFF_FFFF_FFFE 2 = (0, true) := by decide
  rw [loopStrict, h1]
  simp [e1, trivCb, Region.toRegionAddr, checkedSub, Region.checkAddress, Region.addressInRange,
    Region.len, U, ov]

/-- **the walk never continues past the last address** (fix dfb8366), for *every* layout, well-formed or not: when the
    chunk just handled ends exactly at 2^64 and more bytes were asked for, the access returns what it has moved so far —
    it does not look up address 0 -/
theorem loop_stops_at_top {σ : Type} (f : GMem → σ → Nat → Nat → Nat → Nat → GMem × σ × Res Nat)
    (count addr : Nat) (m : GMem) (st : σ) (cur total idx start k : Nat) (region : Region) (m' : GMem) (st' : σ)
    (hfind : m.findRegion cur = .ok (some idx)) (hreg : m[idx]? = some region)
    (hstart : region.toRegionAddr cur = some start)
    (hpre : ¬ (region.len < start ∨ count < total))
    (hf : f m st total (min (region.len - start) (count - total)) start idx = (m', st', .ok (k + 1)))
    (hmore : total + (k + 1) < count) (hfit : total + (k + 1) < U)
    (htop : cur + (k + 1) = U) :
    GMem.tryAccessLoop f count addr m st cur total = (m', st', .ok (total + (k + 1))) := by
  rw [GMem.tryAccessLoop, hfind]
  simp only [hreg, hstart]
  rw [if_neg hpre]
  simp only [hf]
  rw [if_pos hfit, if_pos hmore]
  have ov : overflowingAdd cur (k + 1) = (0, true) := by
    unfold overflowingAdd; rw [htop]; simp [U]
  simp [ov]


/-! ## 6. histories: the memory refines a spec-level machine over `flat`

  The spec-level state is the flat byte function; the layout `L` (any memory with the same
  layout as the one the history starts from) only supplies `mapped`, `runLen` and `ObjAt`. -/

inductive Op
  | write (buf : List UInt8) (addr : Nat)
  | writeSlice (buf : List UInt8) (addr : Nat)
  | writeObj (val : List UInt8) (addr : Nat)
  | store (val : List UInt8) (t : Ty) (addr : Nat)
  | read (len addr : Nat)
  | readSlice (len addr : Nat)
  | readObj (t : Ty) (addr : Nat)
  | load (t : Ty) (addr : Nat)

/-- what a call returns -/
inductive Out
  | count (r : Res Nat)
  | unit (r : Res Unit)
  | data (r : Res (List UInt8))

/-- buffer lengths are `usize` values -/
def Op.Valid : Op → Prop
  | .write buf _ => buf.length < U
  | .writeSlice buf _ => buf.length < U
  | .writeObj buf _ => buf.length < U
  | .read len _ => len < U
  | .readSlice len _ => len < U
  | .readObj t _ => t.size < U
  | .store _ _ _ => True
  | .load _ _ => True

def voidRes {α : Type} : Res α → Res Unit
  | .ok _ => .ok ()
  | .err e => .err e
  | .panic => .panic

def memOr (m : GMem) : Res GMem → GMem
  | .ok m' => m'
  | _ => m

/-- one call on the model: the memory afterwards (an `Err` of `store` leaves it as it was; the
    `write` forms return the memory themselves) and the value returned -/
def step (m : GMem) : Op → GMem × Out
  | .write buf addr => ((m.write buf addr).1, .count (m.write buf addr).2)
  | .writeSlice buf addr => ((m.writeSlice buf addr).1, .unit (m.writeSlice buf addr).2)
  | .writeObj val addr => ((m.writeObj val addr).1, .unit (m.writeObj val addr).2)
  | .store val t addr => (memOr m (m.store val t addr), .unit (voidRes (m.store val t addr)))
  | .read len addr => (m, .data (m.read len addr))
  | .readSlice len addr => (m, .data (m.readSlice len addr))
  | .readObj t addr => (m, .data (m.readObj t addr))
  | .load t addr => (m, .data (m.load t addr))

def run (m : GMem) : List Op → GMem × List Out
  | [] => (m, [])
  | op :: ops => ((run (step m op).1 ops).1, (step m op).2 :: (run (step m op).1 ops).2)

/-- `fl` with `d` laid over `[addr, addr + d.length)` -/
def overlay (fl : Nat → Option UInt8) (addr : Nat) (d : List UInt8) : Nat → Option UInt8 :=
  fun a => if addr ≤ a ∧ a < addr + d.length then d[a - addr]? else fl a

/-- spec: the flat bytes after a call -/
def specFlat (L : GMem) (fl : Nat → Option UInt8) : Op → Nat → Option UInt8
  | .write buf addr => overlay fl addr (buf.take (runLen L addr buf.length))
  | .writeSlice buf addr => overlay fl addr (buf.take (runLen L addr buf.length))
  | .writeObj buf addr => overlay fl addr (buf.take (runLen L addr buf.length))
  | .store val t addr => if ObjAt L t addr then overlay fl addr (val.take t.size) else fl
  | .read _ _ => fl
  | .readSlice _ _ => fl
  | .readObj _ _ => fl
  | .load _ _ => fl

def specWriteSlice (L : GMem) (buf : List UInt8) (addr : Nat) : Res Unit :=
  if buf = [] then .ok ()
  else if mapped L addr then
    (if runLen L addr buf.length = buf.length then .ok ()
     else .err (.partialBuffer buf.length (runLen L addr buf.length)))
  else .err (.invalidGuestAddress addr)

def specReadSlice (L : GMem) (fl : Nat → Option UInt8) (len addr : Nat) : Res (List UInt8) :=
  if len = 0 then .ok []
  else if mapped L addr then
    (if runLen L addr len = len then .ok (flatRead fl addr len)
     else .err (.partialBuffer len (runLen L addr len)))
  else .err (.invalidGuestAddress addr)

/-- spec: the value a call returns -/
def specOut (L : GMem) (fl : Nat → Option UInt8) : Op → Out
  | .write buf addr => .count (
      if buf = [] then .ok 0
      else if mapped L addr then .ok (runLen L addr buf.length)
      else .err (.invalidGuestAddress addr))
  | .writeSlice buf addr => .unit (specWriteSlice L buf addr)
  | .writeObj buf addr => .unit (specWriteSlice L buf addr)
  | .store _ t addr => .unit (
      if ObjAt L t addr then .ok ()
      else if mapped L addr then .err .invalidBackendAddress
      else .err (.invalidGuestAddress addr))
  | .read len addr => .data (
      if len = 0 then .ok []
      else if mapped L addr then .ok (flatRead fl addr (runLen L addr len))
      else .err (.invalidGuestAddress addr))
  | .readSlice len addr => .data (specReadSlice L fl len addr)
  | .readObj t addr => .data (specReadSlice L fl t.size addr)
  | .load t addr => .data (
      if ObjAt L t addr then .ok (flatRead fl addr t.size)
      else if mapped L addr then .err .invalidBackendAddress
      else .err (.invalidGuestAddress addr))

def specRun (L : GMem) (fl : Nat → Option UInt8) : List Op → (Nat → Option UInt8) × List Out
  | [] => (fl, [])
  | op :: ops => ((specRun L (specFlat L fl op) ops).1,
                  specOut L fl op :: (specRun L (specFlat L fl op) ops).2)

/-- the final flat bytes are the fold of the per-call flat equations -/
theorem specRun_fst (L : GMem) (fl : Nat → Option UInt8) (ops : List Op) :
    (specRun L fl ops).1 = ops.foldl (specFlat L) fl := by
  induction ops generalizing fl with
  | nil => rfl
  | cons op ops ih => exact ih (specFlat L fl op)

theorem overlay_nil (fl : Nat → Option UInt8) (addr : Nat) : overlay fl addr [] = fl := by
  funext a
  unfold overlay
  rw [if_neg (by simp)]

theorem overlay_take (fl : Nat → Option UInt8) (addr : Nat) (buf : List UInt8) (k : Nat)
    (hk : k ≤ buf.length) (a : Nat) :
    overlay fl addr (buf.take k) a = if addr ≤ a ∧ a < addr + k then buf[a - addr]? else fl a := by
  unfold overlay
  have hl : (buf.take k).length = k := by rw [List.length_take]; omega
  rw [hl]
  by_cases hc : addr ≤ a ∧ a < addr + k
  · rw [if_pos hc, if_pos hc, List.getElem?_take, if_pos (by omega)]
  · rw [if_neg hc, if_neg hc]

theorem write_refines (L m : GMem) (hL : SameLayout L m) (h : GWF m) (buf : List UInt8)
    (addr : Nat) (hv : buf.length < U) :
    (m.write buf addr).2 =
      (if buf = [] then .ok 0
       else if mapped L addr then .ok (runLen L addr buf.length)
       else .err (.invalidGuestAddress addr)) ∧
    flat (m.write buf addr).1 = overlay (flat m) addr (buf.take (runLen L addr buf.length)) ∧
    SameLayout L (m.write buf addr).1 ∧ GWF (m.write buf addr).1 := by
  by_cases hb : buf = []
  · subst hb
    rw [C18g.write_empty, if_pos rfl]
    exact ⟨rfl, by rw [List.take_nil, overlay_nil], hL, h⟩
  · rw [if_neg hb]
    obtain ⟨h1, h2⟩ := write_flat m h buf hb hv addr
    by_cases hm : mapped m addr
    · obtain ⟨m', hw, _, hsl, hg, hfl⟩ := h2 hm
      rw [hw, if_pos ((hL.mapped addr).1 hm), ← hL.runLen]
      refine ⟨rfl, ?_, hL.trans hsl, hg⟩
      funext a
      rw [hfl a, overlay_take _ _ _ _ (runLen_le m addr buf.length)]
    · rw [h1 hm, if_neg (fun x => hm ((hL.mapped addr).2 x)), ← hL.runLen, runLen_unmapped hm]
      exact ⟨rfl, by rw [List.take_zero, overlay_nil], hL, h⟩

theorem writeSlice_refines (L m : GMem) (hL : SameLayout L m) (h : GWF m) (buf : List UInt8)
    (addr : Nat) (hv : buf.length < U) :
    (m.writeSlice buf addr).2 = specWriteSlice L buf addr ∧
    flat (m.writeSlice buf addr).1 = overlay (flat m) addr (buf.take (runLen L addr buf.length)) ∧
    SameLayout L (m.writeSlice buf addr).1 ∧ GWF (m.writeSlice buf addr).1 := by
  unfold specWriteSlice
  by_cases hb : buf = []
  · subst hb
    rw [C18g.writeSlice_empty, if_pos rfl]
    exact ⟨rfl, by rw [List.take_nil, overlay_nil], hL, h⟩
  · rw [if_neg hb]
    obtain ⟨h1, h2⟩ := writeSlice_flat m h buf hb hv addr
    by_cases hm : mapped m addr
    · obtain ⟨m', hw, hsl, hg, hfl⟩ := h2 hm
      rw [hw, if_pos ((hL.mapped addr).1 hm), ← hL.runLen]
      refine ⟨rfl, ?_, hL.trans hsl, hg⟩
      funext a
      rw [hfl a, overlay_take _ _ _ _ (runLen_le m addr buf.length)]
    · rw [h1 hm, if_neg (fun x => hm ((hL.mapped addr).2 x)), ← hL.runLen, runLen_unmapped hm]
      exact ⟨rfl, by rw [List.take_zero, overlay_nil], hL, h⟩

theorem store_refines (L m : GMem) (hL : SameLayout L m) (h : GWF m) (val : List UInt8) (t : Ty)
    (addr : Nat) :
    voidRes (m.store val t addr) =
      (if ObjAt L t addr then .ok ()
       else if mapped L addr then .err .invalidBackendAddress
       else .err (.invalidGuestAddress addr)) ∧
    flat (memOr m (m.store val t addr)) =
      (if ObjAt L t addr then overlay (flat m) addr (val.take t.size) else flat m) ∧
    SameLayout L (memOr m (m.store val t addr)) ∧ GWF (memOr m (m.store val t addr)) := by
  obtain ⟨h1, h2, h3⟩ := store_flat m h val t addr
  by_cases hob : ObjAt m t addr
  · obtain ⟨m', hok, hsl, hg, hfl⟩ := h3 hob
    have hobL := (ObjAt_congr hL t addr).1 hob
    rw [hok, if_pos hobL, if_pos hobL]
    refine ⟨rfl, ?_, hL.trans hsl, hg⟩
    funext a
    exact hfl a
  · have hobL : ¬ ObjAt L t addr := fun x => hob ((ObjAt_congr hL t addr).2 x)
    rw [if_neg hobL, if_neg hobL]
    by_cases hm : mapped m addr
    · rw [h2 hm hob, if_pos ((hL.mapped addr).1 hm)]
      exact ⟨rfl, rfl, hL, h⟩
    · rw [h1 hm, if_neg (fun x => hm ((hL.mapped addr).2 x))]
      exact ⟨rfl, rfl, hL, h⟩

theorem read_refines (L m : GMem) (hL : SameLayout L m) (h : GWF m) (len addr : Nat) (hv : len < U) :
    m.read len addr =
      (if len = 0 then .ok []
       else if mapped L addr then .ok (flatRead (flat m) addr (runLen L addr len))
       else .err (.invalidGuestAddress addr)) := by
  by_cases h0 : len = 0
  · subst h0; rw [C18g.read_zero, if_pos rfl]
  · rw [if_neg h0]
    by_cases hm : mapped m addr
    · rw [if_pos ((hL.mapped addr).1 hm), ← hL.runLen,
        read_eq_flatRead m h len (by omega) hv addr hm]
    · rw [if_neg (fun x => hm ((hL.mapped addr).2 x)),
        (read_flat m h len (by omega) hv addr).1 hm]

theorem readSlice_refines (L m : GMem) (hL : SameLayout L m) (h : GWF m) (len addr : Nat)
    (hv : len < U) : m.readSlice len addr = specReadSlice L (flat m) len addr := by
  unfold specReadSlice
  by_cases h0 : len = 0
  · subst h0; rw [C18g.readSlice_zero, if_pos rfl]
  · rw [if_neg h0]
    obtain ⟨h1, h2, h3⟩ := readSlice_flat m h len (by omega) hv addr
    by_cases hm : mapped m addr
    · rw [if_pos ((hL.mapped addr).1 hm), ← hL.runLen]
      by_cases hk : runLen m addr len = len
      · rw [if_pos hk]
        exact (readSlice_of_mapped m h len (by omega) hv addr
          ((runLen_full_iff m addr len).1 hk)).2.1
      · rw [if_neg hk, h3 hm hk]
    · rw [if_neg (fun x => hm ((hL.mapped addr).2 x)), h1 hm]

theorem load_refines (L m : GMem) (hL : SameLayout L m) (h : GWF m) (t : Ty) (addr : Nat) :
    m.load t addr =
      (if ObjAt L t addr then .ok (flatRead (flat m) addr t.size)
       else if mapped L addr then .err .invalidBackendAddress
       else .err (.invalidGuestAddress addr)) := by
  obtain ⟨h1, h2, h3⟩ := load_flat m h t addr
  by_cases hob : ObjAt m t addr
  · rw [if_pos ((ObjAt_congr hL t addr).1 hob), h3 hob]
  · rw [if_neg (fun x => hob ((ObjAt_congr hL t addr).2 x))]
    by_cases hm : mapped m addr
    · rw [if_pos ((hL.mapped addr).1 hm), h2 hm hob]
    · rw [if_neg (fun x => hm ((hL.mapped addr).2 x)), h1 hm]

/-- one call: the model's result and memory are the spec's -/
theorem step_refines (L m : GMem) (hL : SameLayout L m) (h : GWF m) (op : Op) (hv : op.Valid) :
    (step m op).2 = specOut L (flat m) op ∧ flat (step m op).1 = specFlat L (flat m) op ∧
    SameLayout L (step m op).1 ∧ GWF (step m op).1 := by
  cases op with
  | write buf addr =>
    obtain ⟨a, b, c, d⟩ := write_refines L m hL h buf addr hv
    exact ⟨congrArg Out.count a, b, c, d⟩
  | writeSlice buf addr =>
    obtain ⟨a, b, c, d⟩ := writeSlice_refines L m hL h buf addr hv
    exact ⟨congrArg Out.unit a, b, c, d⟩
  | writeObj buf addr =>
    obtain ⟨a, b, c, d⟩ := writeSlice_refines L m hL h buf addr hv
    exact ⟨congrArg Out.unit a, b, c, d⟩
  | store val t addr =>
    obtain ⟨a, b, c, d⟩ := store_refines L m hL h val t addr
    exact ⟨congrArg Out.unit a, b, c, d⟩
  | read len addr => exact ⟨congrArg Out.data (read_refines L m hL h len addr hv), rfl, hL, h⟩
  | readSlice len addr =>
    exact ⟨congrArg Out.data (readSlice_refines L m hL h len addr hv), rfl, hL, h⟩
  | readObj t addr =>
    exact ⟨congrArg Out.data (readSlice_refines L m hL h t.size addr hv), rfl, hL, h⟩
  | load t addr => exact ⟨congrArg Out.data (load_refines L m hL h t addr), rfl, hL, h⟩

/-- **history**: along any list of calls, every returned value and the final flat bytes are
    those of the spec-level machine; layout and well-formedness are preserved throughout -/
theorem history_gen (L : GMem) (ops : List Op) :
    ∀ (m : GMem), SameLayout L m → GWF m → (∀ op ∈ ops, op.Valid) →
      (run m ops).2 = (specRun L (flat m) ops).2 ∧ flat (run m ops).1 = (specRun L (flat m) ops).1 ∧
      SameLayout L (run m ops).1 ∧ GWF (run m ops).1 := by
  induction ops with
  | nil => intro m hL h _; exact ⟨rfl, rfl, hL, h⟩
  | cons op ops ih =>
    intro m hL h hv
    obtain ⟨ho, hf, hL1, h1⟩ := step_refines L m hL h op (hv op List.mem_cons_self)
    obtain ⟨ro, rf, rL, rg⟩ := ih (step m op).1 hL1 h1 (fun o ho' => hv o (List.mem_cons_of_mem _ ho'))
    rw [hf] at ro rf
    refine ⟨?_, rf, rL, rg⟩
    show (step m op).2 :: (run (step m op).1 ops).2 = _
    rw [ho, ro]
    rfl

theorem history (m : GMem) (h : GWF m) (ops : List Op) (hv : ∀ op ∈ ops, op.Valid) :
    (run m ops).2 = (specRun m (flat m) ops).2 ∧
    flat (run m ops).1 = ops.foldl (specFlat m) (flat m) ∧
    SameLayout m (run m ops).1 ∧ GWF (run m ops).1 := by
  obtain ⟨a, b, c, d⟩ := history_gen m ops m (SameLayout.refl m) h hv
  exact ⟨a, by rw [b, specRun_fst], c, d⟩

/-- a byte no write of the history covers is never changed -/
theorem history_untouched (m : GMem) (h : GWF m) (ops : List Op) (hv : ∀ op ∈ ops, op.Valid)
    (a : Nat)
    (hfar : ∀ op ∈ ops, match op with
      | .write buf addr => a < addr ∨ addr + buf.length ≤ a
      | .writeSlice buf addr => a < addr ∨ addr + buf.length ≤ a
      | .writeObj buf addr => a < addr ∨ addr + buf.length ≤ a
      | .store _ t addr => a < addr ∨ addr + t.size ≤ a
      | _ => True) :
    flat (run m ops).1 a = flat m a := by
  rw [(history m h ops hv).2.1]
  generalize flat m = fl
  induction ops generalizing fl with
  | nil => rfl
  | cons op ops ih =>
    rw [List.foldl_cons, ih (fun o ho => hv o (List.mem_cons_of_mem _ ho))
      (fun o ho => hfar o (List.mem_cons_of_mem _ ho))]
    have hop := hfar op List.mem_cons_self
    have hwr : ∀ (buf : List UInt8) (addr : Nat), (a < addr ∨ addr + buf.length ≤ a) →
        overlay fl addr (buf.take (runLen m addr buf.length)) a = fl a := by
      intro buf addr hd
      have := runLen_le m addr buf.length
      rw [overlay_take _ _ _ _ this, if_neg (by omega)]
    cases op with
    | write buf addr => exact hwr buf addr hop
    | writeSlice buf addr => exact hwr buf addr hop
    | writeObj buf addr => exact hwr buf addr hop
    | store val t addr =>
      show (if ObjAt m t addr then overlay fl addr (val.take t.size) else fl) a = fl a
      split
      · unfold overlay
        have : (val.take t.size).length ≤ t.size := by rw [List.length_take]; omega
        have hop' : a < addr ∨ addr + t.size ≤ a := hop
        rw [if_neg (by omega)]
      · rfl
    | read _ _ => rfl
    | readSlice _ _ => rfl
    | readObj _ _ => rfl
    | load _ _ => rfl

/-! ## 8. non-vacuity: three regions, a write across a boundary that stops at a hole

  A = `[0x1000, 0x1004)`, B = `[0x1004, 0x1007)` (touching A), hole `[0x1007, 0x100a)`,
  C = `[0x100a, 0x100c)`. -/

def regA : Region := { start := 0x1000, mem := ⟨0x7000, [0xA0, 0xA1, 0xA2, 0xA3], none⟩, id := 1 }
def regB : Region := { start := 0x1004, mem := ⟨0x8000, [0xB0, 0xB1, 0xB2], none⟩, id := 2 }
def regC : Region := { start := 0x100a, mem := ⟨0x9000, [0xC0, 0xC1], none⟩, id := 3 }
def exMem : GMem := [regA, regB, regC]
def buf9 : List UInt8 := [1, 2, 3, 4, 5, 6, 7, 8, 9]

/-- after the first iteration: 2 bytes in A -/
def exMem1 : GMem := [{ regA with mem := ⟨0x7000, [0xA0, 0xA1, 1, 2], none⟩ }, regB, regC]
/-- after the second iteration: 3 bytes in B -/
def exMem2 : GMem :=
  [{ regA with mem := ⟨0x7000, [0xA0, 0xA1, 1, 2], none⟩ },
   { regB with mem := ⟨0x8000, [3, 4, 5], none⟩ }, regC]

theorem gwf_of_untracked (m : GMem) (hw : WF m)
    (h : ∀ r ∈ m, r.mem.bm = none ∧ r.mem.base + r.mem.bytes.length ≤ U) : GWF m :=
  ⟨hw, fun r hr => ⟨BmInv_none _ (h r hr).1, (h r hr).2⟩⟩

theorem exMem_GWF : GWF exMem := gwf_of_untracked exMem (by decide) (by decide)

example : runLen exMem 0x1002 9 = 5 := by decide
example : runLen exMem 0x1007 9 = 0 := by decide
example : runLen exMem 0x100a 9 = 2 := by decide

/-- through the theorems: `Ok(5)` … -/
example : (exMem.write buf9 0x1002).2 = .ok 5 :=
  (write_result exMem exMem_GWF buf9 (by decide) (by decide) 0x1002).trans (by decide)
/-- … `PartialBuffer { expected: 9, completed: 5 }` for the all-or-error form … -/
example : (exMem.writeSlice buf9 0x1002).2 = .err (.partialBuffer 9 5) := by
  obtain ⟨m', hw, _⟩ := (writeSlice_flat exMem exMem_GWF buf9 (by decide) (by decide) 0x1002).2
    (by decide)
  rw [hw]
  show (if runLen exMem 0x1002 buf9.length = buf9.length then (Res.ok () : Res Unit)
        else .err (.partialBuffer buf9.length (runLen exMem 0x1002 buf9.length))) = _
  decide
/-- … a write that starts in the hole fails and changes nothing … -/
example : exMem.write buf9 0x1007 = (exMem, .err (.invalidGuestAddress 0x1007)) :=
  (write_flat exMem exMem_GWF buf9 (by decide) (by decide) 0x1007).1 (by decide)
/-- … and two bytes fit C entirely -/
example : (exMem.writeSlice [7, 8] 0x100a).2 = .ok () :=
  ((writeSlice_ok_iff exMem exMem_GWF [7, 8] (by decide) (by decide) 0x100a).1).2 (by decide)

/-- directly on the model, iteration by iteration (`loop_step` / `loop_unmapped`): the
    memory afterwards has 2 bytes in A, 3 in B, C untouched -/
theorem ex_write : exMem.write buf9 0x1002 = (exMem2, .ok 5) := by
  have hloop : GMem.tryAccessLoop (wcb buf9) 9 0x1002 exMem () 0x1002 0 = (exMem2, (), .ok 5) := by
    rw [loop_step (wcb buf9) (m := exMem) (by decide) (count := 9) (by decide) 0x1002 ()
      (cur := 0x1002) (total := 0) (i := 0) (r := regA) rfl (by decide) (by decide)
      (m1 := exMem1) (st1 := ()) (n := 2) (by decide) (by decide)]
    rw [if_pos (by decide)]
    rw [loop_step (wcb buf9) (m := exMem1) (by decide) (count := 9) (by decide) 0x1002 ()
      (cur := 0x1002 + 2) (total := 0 + 2) (i := 1) (r := regB) rfl (by decide) (by decide)
      (m1 := exMem2) (st1 := ()) (n := 3) (by decide) (by decide)]
    rw [if_pos (by decide)]
    rw [loop_unmapped (wcb buf9) (m := exMem2) (by decide) 9 0x1002 () (cur := 0x1002 + 2 + 3)
      (0 + 2 + 3) (by decide)]
    rfl
  rw [write_eq_loop]
  have ht : GMem.tryAccess (wcb buf9) exMem () buf9.length 0x1002 =
      GMem.tryAccessLoop (wcb buf9) 9 0x1002 exMem () 0x1002 0 := rfl
  rw [ht, hloop]

/-- the flat view of the result: the five bytes, in order, across the A/B boundary; the hole
    and C as before -/
example : (List.range 12).map (fun i => flat exMem2 (0x1000 + i)) =
    [some 0xA0, some 0xA1, some 1, some 2, some 3, some 4, some 5, none, none, none,
     some 0xC0, some 0xC1] := by decide

/-- reading back: 9 bytes asked, the 5 of the run returned; the all-or-error form reports 5 -/
example : exMem2.read 9 0x1002 = .ok [1, 2, 3, 4, 5] :=
  (write_read exMem exMem_GWF buf9 (by decide) (by decide) 0x1002 ex_write).2.2
example : exMem2.readSlice 3 0x1003 = .ok [2, 3, 4] :=
  (write_read_sub exMem exMem_GWF buf9 (by decide) (by decide) 0x1002 ex_write 0x1003 3
    (by decide) (by decide) (by decide)).2.1
/-- region-level and host-pointer routes -/
example : ({ regB with mem := ⟨0x8000, [3, 4, 5], none⟩ } : Region).read 2 1 = .ok [4, 5] := by decide
example : exMem2.getHostAddress 0x1005 = .ok 0x8001 := by decide

/-- a memory whose regions are tracked by dirty bitmaps is in scope too (`BmInv` from C09):
    two touching tracked regions, a write across the boundary -/
def exTrackedMem : GMem :=
  [ { start := 0x2000, mem := C04.exTracked, id := 1 },
    { start := 0x200d, mem := { C04.exTracked with base := 0x5000 }, id := 2 } ]

theorem exTrackedMem_GWF : GWF exTrackedMem := by
  refine ⟨by decide, ?_⟩
  intro r hr
  simp only [exTrackedMem, List.mem_cons, List.not_mem_nil, or_false] at hr
  rcases hr with rfl | rfl
  · exact ⟨C04.exTracked_inv, by decide⟩
  · exact ⟨BmInv_congr (m := C04.exTracked) rfl C04.exTracked_inv, by decide⟩

example : ∃ m', exTrackedMem.write [0xAA, 0xBB, 0xCC, 0xDD] 0x200b = (m', .ok 4) ∧ GWF m' ∧
    m'.read 4 0x200b = .ok [0xAA, 0xBB, 0xCC, 0xDD] ∧
    flat m' 0x200c = some 0xBB ∧ flat m' 0x200d = some 0xCC ∧ flat m' 0x200a = some 10 := by
  obtain ⟨m', hw, _, _, hg, hfl⟩ :=
    (write_flat exTrackedMem exTrackedMem_GWF [0xAA, 0xBB, 0xCC, 0xDD] (by decide) (by decide)
      0x200b).2 (by decide)
  have hk : runLen exTrackedMem 0x200b ([0xAA, 0xBB, 0xCC, 0xDD] : List UInt8).length = 4 := by decide
  rw [hk] at hw hfl
  refine ⟨m', hw, hg, ?_, ?_, ?_, ?_⟩
  · exact (write_read exTrackedMem exTrackedMem_GWF _ (by decide) (by decide) 0x200b hw).1
  · rw [hfl]; decide
  · rw [hfl]; decide
  · rw [hfl]; decide

/-! ## the property's clauses under their names -/

/-- 3. the all-or-error forms, in one statement -/
theorem slice_forms (m : GMem) (h : GWF m) (addr : Nat) :
    (∀ buf : List UInt8, buf ≠ [] → buf.length < U →
      ((m.writeSlice buf addr).2 = .ok () ↔ runLen m addr buf.length = buf.length) ∧
      (¬ mapped m addr → m.writeSlice buf addr = (m, .err (.invalidGuestAddress addr))) ∧
      (mapped m addr →
        ∃ m', m.writeSlice buf addr =
            (m', if runLen m addr buf.length = buf.length then .ok ()
                 else .err (.partialBuffer buf.length (runLen m addr buf.length))) ∧
          SameLayout m m' ∧ GWF m' ∧
          ∀ a, flat m' a =
            if addr ≤ a ∧ a < addr + runLen m addr buf.length then buf[a - addr]? else flat m a)) ∧
    (∀ len : Nat, 0 < len → len < U →
      (¬ mapped m addr → m.readSlice len addr = .err (.invalidGuestAddress addr)) ∧
      (mapped m addr → runLen m addr len = len →
        m.readSlice len addr = .ok (flatRead (flat m) addr len)) ∧
      (mapped m addr → runLen m addr len ≠ len →
        m.readSlice len addr = .err (.partialBuffer len (runLen m addr len)))) ∧
    (∀ val, m.writeObj val addr = m.writeSlice val addr) ∧
    (∀ t : Ty, m.readObj t addr = m.readSlice t.size addr) := by
  refine ⟨?_, ?_, fun _ => rfl, fun _ => rfl⟩
  · intro buf hb hl
    obtain ⟨h1, h2⟩ := writeSlice_flat m h buf hb hl addr
    exact ⟨(writeSlice_ok_iff m h buf hb hl addr).1, h1, h2⟩
  · intro len hpos hl
    obtain ⟨h1, _, h3⟩ := readSlice_flat m h len hpos hl addr
    refine ⟨h1, ?_, h3⟩
    intro _ hk
    exact (readSlice_of_mapped m h len hpos hl addr ((runLen_full_iff m addr len).1 hk)).2.1

/-- 4. what was written is what is later read back, through any route -/
theorem round_trip (m : GMem) (h : GWF m) (buf : List UInt8) (hb : buf ≠ []) (hl : buf.length < U)
    (addr : Nat) {m' : GMem} {k : Nat} (hw : m.write buf addr = (m', .ok k)) :
    m'.read k addr = .ok (buf.take k) ∧
    m'.read buf.length addr = .ok (buf.take k) ∧
    (∀ a n, 0 < n → addr ≤ a → a + n ≤ addr + k →
      m'.read n a = .ok ((buf.drop (a - addr)).take n) ∧
      m'.readSlice n a = .ok ((buf.drop (a - addr)).take n) ∧
      (∀ t : Ty, t.size = n → m'.readObj t a = .ok ((buf.drop (a - addr)).take n)) ∧
      (∀ t : Ty, t.size = n → ObjAt m' t a → m'.load t a = .ok ((buf.drop (a - addr)).take n)) ∧
      (∀ (i : Nat) (r' : Region), m'[i]? = some r' → r'.start ≤ a → a + n ≤ r'.start + r'.len →
        r'.read n (a - r'.start) = .ok ((buf.drop (a - addr)).take n))) ∧
    (∀ j, j < k → ∃ (i : Nat) (r' : Region) (p : Nat), m'[i]? = some r' ∧
      m'.getHostAddress (addr + j) = .ok p ∧ m.getHostAddress (addr + j) = .ok p ∧
      r'.mem.readAt p 1 = .ok (buf[j]?).toList) := by
  have w := write_post m h buf hb hl addr hw
  have hle := w.le
  obtain ⟨r1, _, r3⟩ := write_read m h buf hb hl addr hw
  refine ⟨r1, r3, ?_, ?_⟩
  · intro a n hn ha hfit
    obtain ⟨s1, s2, s3⟩ := write_read_sub m h buf hb hl addr hw a n hn ha hfit
    refine ⟨s1, s2, s3, ?_, ?_⟩
    · intro t ht hob
      rw [(load_flat m' w.gwf t a).2.2 hob, ht, w.readout a n ha hfit]
    · intro i r' hi hin hreg
      exact write_region_read m h buf hb hl addr hw hi a n hn ha hin hfit hreg
  · intro j hj
    obtain ⟨i, r', p, hi, h1, h2, h3⟩ := write_host m h buf hb hl addr hw j hj
    refine ⟨i, r', p, hi, h1, h2, ?_⟩
    rw [h3, List.getElem?_eq_getElem (by omega)]
    rfl

end C03
end VmMem

#print axioms VmMem.C03.write_flat
#print axioms VmMem.C03.write_result
#print axioms VmMem.C03.write_err_iff
#print axioms VmMem.C03.read_flat
#print axioms VmMem.C03.read_err_iff
#print axioms VmMem.C03.read_congr
#print axioms VmMem.C03.writeSlice_flat
#print axioms VmMem.C03.writeSlice_ok_iff
#print axioms VmMem.C03.readSlice_flat
#print axioms VmMem.C03.readSlice_ok_iff
#print axioms VmMem.C03.writeObj_eq
#print axioms VmMem.C03.readObj_eq
#print axioms VmMem.C03.read_eq_flatRead
#print axioms VmMem.C03.readSlice_of_mapped
#print axioms VmMem.C03.region_read_flat
#print axioms VmMem.C03.flat_via_host
#print axioms VmMem.C03.write_post
#print axioms VmMem.C03.write_read
#print axioms VmMem.C03.write_read_sub
#print axioms VmMem.C03.write_region_read
#print axioms VmMem.C03.write_host
#print axioms VmMem.C03.store_flat
#print axioms VmMem.C03.store_ok_iff
#print axioms VmMem.C03.load_flat
#print axioms VmMem.C03.store_load
#print axioms VmMem.C03.no_wrap
#print axioms VmMem.C03.no_wrap_loop
#print axioms VmMem.C03.trivCb_good
#print axioms VmMem.C03.wcb_good
#print axioms VmMem.C03.rcb_good
#print axioms VmMem.C03.write_read_no_wrap
#print axioms VmMem.C03.step_refines
#print axioms VmMem.C03.history_gen
#print axioms VmMem.C03.history
#print axioms VmMem.C03.history_untouched
#print axioms VmMem.C03.exMem_GWF
#print axioms VmMem.C03.ex_write
#print axioms VmMem.C03.exTrackedMem_GWF
#print axioms VmMem.C03.slice_forms
#print axioms VmMem.C03.round_trip
#print axioms VmMem.C03.ObjAt_congr
#print axioms VmMem.C03.ObjAt_of_owner
#print axioms VmMem.C03.write_refines
#print axioms VmMem.C03.writeSlice_refines
#print axioms VmMem.C03.store_refines
#print axioms VmMem.C03.read_refines
#print axioms VmMem.C03.readSlice_refines
#print axioms VmMem.C03.load_refines
#print axioms VmMem.C03.specRun_fst
#print axioms VmMem.FlatLemmas.loop_write
#print axioms VmMem.FlatLemmas.loop_read
#print axioms VmMem.FlatLemmas.loop_step
#print axioms VmMem.FlatLemmas.loop_unmapped
#print axioms VmMem.FlatLemmas.no_wrap_step
#print axioms VmMem.FlatLemmas.flat_set
#print axioms VmMem.FlatLemmas.flat_stored
#print axioms VmMem.C03.wrap_before_fix
#print axioms VmMem.C03.no_wrap_after_fix
#print axioms VmMem.C03.loop_stops_at_top
