/-
  VmMem.Props.C18g — guest-memory level: an access that names no bytes succeeds as a no-op at
  ANY guest address (mapped, in a hole, 0, `U - 1`, even ≥ `U`) of ANY memory (no `WF` needed).

  All statements are immediate from `try_access`: `if count == 0 { return Ok(0) }`, the early
  return added by the `fix:` commit for defect D1.  `tryAccessBeforeFix` records the code
  before that commit: the loop was entered with `count = 0`, resolved `addr`, and returned
  `InvalidGuestAddress(addr)` when `addr` was not mapped.
-/
import VmMem.Model.Guest
import VmMem.Lemmas.GuestLemmas
namespace VmMem
namespace C18g
open GuestLemmas

/-- `try_access(0, addr, f)` is `Ok(0)` for every callback, memory, state and address -/
theorem tryAccess_zero {σ : Type} (f : GMem → σ → Nat → Nat → Nat → Nat → GMem × σ × Res Nat)
    (m : GMem) (st : σ) (addr : Nat) : GMem.tryAccess f m st 0 addr = (m, st, .ok 0) := by
  unfold GMem.tryAccess
  rw [if_pos rfl]

/-! ## `Bytes<GuestAddress>`: empty buffer, zero-sized object — every `addr`, every `m` -/

theorem write_empty (m : GMem) (addr : Nat) : m.write [] addr = (m, .ok 0) := by
  unfold GMem.write
  simp only [List.length_nil, tryAccess_zero]

theorem read_zero (m : GMem) (addr : Nat) : m.read 0 addr = .ok [] := by
  unfold GMem.read
  simp only [tryAccess_zero]

theorem writeSlice_empty (m : GMem) (addr : Nat) : m.writeSlice [] addr = (m, .ok ()) := by
  unfold GMem.writeSlice
  rw [write_empty]
  simp

theorem readSlice_zero (m : GMem) (addr : Nat) : m.readSlice 0 addr = .ok [] := by
  unfold GMem.readSlice
  rw [read_zero]
  rfl

/-- `write_obj` of a zero-sized value (its byte image is empty) -/
theorem writeObj_zst (m : GMem) (val : List UInt8) (h : val.length = 0) (addr : Nat) :
    m.writeObj val addr = (m, .ok ()) := by
  rw [List.length_eq_zero_iff.1 h]
  exact writeSlice_empty m addr

/-- `read_obj` of a zero-sized type -/
theorem readObj_zst (m : GMem) (t : Ty) (h : t.size = 0) (addr : Nat) : m.readObj t addr = .ok [] := by
  unfold GMem.readObj
  rw [h]
  exact readSlice_zero m addr

/-- an empty range has no unmapped byte -/
theorem checkRange_zero (m : GMem) (addr : Nat) : m.checkRange addr 0 = .ok true :=
  checkRange_zero_eq m addr

/-! ## stream forms with `count = 0`: the stream is not touched either -/

theorem readVolatileFrom_zero (m : GMem) (addr : Nat) (src : Reader) :
    m.readVolatileFrom addr src 0 = (m, src, .ok 0) := by
  unfold GMem.readVolatileFrom
  exact tryAccess_zero _ m src addr

theorem writeVolatileTo_zero (m : GMem) (addr : Nat) (dst : Writer) :
    m.writeVolatileTo addr dst 0 = (dst, .ok 0) := by
  unfold GMem.writeVolatileTo
  simp only [tryAccess_zero]

theorem readExactVolatileFrom_zero (m : GMem) (addr : Nat) (src : Reader) :
    m.readExactVolatileFrom addr src 0 = (m, src, .ok ()) := by
  unfold GMem.readExactVolatileFrom
  rw [readVolatileFrom_zero]
  simp

theorem writeAllVolatileTo_zero (m : GMem) (addr : Nat) (dst : Writer) :
    m.writeAllVolatileTo addr dst 0 = (dst, .ok ()) := by
  unfold GMem.writeAllVolatileTo
  rw [writeVolatileTo_zero]
  simp

/-! ## instances: a hole, address 0, `U - 1`, the empty memory -/

example (m : GMem) : m.write [] 0 = (m, .ok 0) := write_empty m 0
example (m : GMem) : m.write [] (U - 1) = (m, .ok 0) := write_empty m _
example : GMem.read [] 0 0x1234 = .ok [] := read_zero [] _
example (m : GMem) : m.readObj ⟨0, 1⟩ (U - 1) = .ok [] := readObj_zst m _ rfl _
example (m : GMem) : m.checkRange (U - 1) 0 = .ok true := checkRange_zero m _

/-! ## the repaired defect D1 -/

/-- `try_access` before the `fix:` commit: no early return, the loop is entered with
    `count = 0` -/
def tryAccessBeforeFix {σ : Type} (f : GMem → σ → Nat → Nat → Nat → Nat → GMem × σ × Res Nat)
    (m : GMem) (st : σ) (count addr : Nat) : GMem × σ × Res Nat :=
  GMem.tryAccessLoop f count addr m st addr 0

/-- for a non-zero count the two agree -/
theorem tryAccessBeforeFix_agrees {σ : Type}
    (f : GMem → σ → Nat → Nat → Nat → Nat → GMem × σ × Res Nat)
    (m : GMem) (st : σ) (count addr : Nat) (hc : count ≠ 0) :
    tryAccessBeforeFix f m st count addr = GMem.tryAccess f m st count addr := by
  unfold tryAccessBeforeFix GMem.tryAccess
  rw [if_neg hc]

/-- D1: before the fix a zero-length access at an unmapped address of a well-formed memory
    was `InvalidGuestAddress(addr)` — for every callback -/
theorem tryAccessBeforeFix_zero_unmapped {σ : Type}
    (f : GMem → σ → Nat → Nat → Nat → Nat → GMem × σ × Res Nat)
    (m : GMem) (h : WF m) (st : σ) (addr : Nat) (hun : ¬ mapped m addr) :
    tryAccessBeforeFix f m st 0 addr = (m, st, .err (.invalidGuestAddress addr)) := by
  unfold tryAccessBeforeFix
  rw [GMem.tryAccessLoop, findRegion_of_unmapped h hun]
  rfl

/-- a concrete memory with one region `[0x1000, 0x1004)` -/
def exMem : GMem := [{ start := 0x1000, mem := { base := 0x7000, bytes := [1, 2, 3, 4], bm := none } }]

theorem exMem_WF : WF exMem := by decide

/-- before the fix: an empty write into the hole at `0x2000` is an error … -/
example : tryAccessBeforeFix trivCb exMem () 0 0x2000 =
    (exMem, (), .err (.invalidGuestAddress 0x2000)) :=
  tryAccessBeforeFix_zero_unmapped trivCb exMem exMem_WF () 0x2000 (by decide)

/-- … and so at address 0 and in the empty memory … -/
example : tryAccessBeforeFix trivCb exMem () 0 0 = (exMem, (), .err (.invalidGuestAddress 0)) :=
  tryAccessBeforeFix_zero_unmapped trivCb exMem exMem_WF () 0 (by decide)
example : tryAccessBeforeFix trivCb [] () 0 7 = ([], (), .err (.invalidGuestAddress 7)) :=
  tryAccessBeforeFix_zero_unmapped trivCb [] (by decide) () 7 (by decide)

/-- … after it: `Ok` -/
example : exMem.write [] 0x2000 = (exMem, .ok 0) := write_empty exMem _
example : exMem.checkRange 0x2000 0 = .ok true := checkRange_zero exMem _

end C18g
end VmMem

#print axioms VmMem.C18g.tryAccess_zero
#print axioms VmMem.C18g.write_empty
#print axioms VmMem.C18g.read_zero
#print axioms VmMem.C18g.writeSlice_empty
#print axioms VmMem.C18g.readSlice_zero
#print axioms VmMem.C18g.writeObj_zst
#print axioms VmMem.C18g.readObj_zst
#print axioms VmMem.C18g.checkRange_zero
#print axioms VmMem.C18g.readVolatileFrom_zero
#print axioms VmMem.C18g.writeVolatileTo_zero
#print axioms VmMem.C18g.readExactVolatileFrom_zero
#print axioms VmMem.C18g.writeAllVolatileTo_zero
#print axioms VmMem.C18g.tryAccessBeforeFix_agrees
#print axioms VmMem.C18g.tryAccessBeforeFix_zero_unmapped
#print axioms VmMem.C18g.exMem_WF
