/-
  VmMem.Props.C09 — sequential semantics of `AtomicBitmap`: the bitmap is a finite
  set of page numbers `< size`.

  The abstraction function is `ABitmap.bit : ABitmap → Nat → Bool` (bit `p` set and
  `p < size`).  Every operation of the model is specified by its effect on `bit`,
  under the representation invariant `Inv`, which every operation preserves.
-/
import VmMem.Lemmas.BitmapLemmas
namespace VmMem.C09
open VmMem ABitmap

/-- Representation invariant of `AtomicBitmap`. -/
structure Inv (b : ABitmap) : Prop where
  page_pos : 0 < b.page
  size_eq  : b.size = divCeil b.byteSize b.page
  words    : b.map.length = divCeil b.size 64
  clean_tail : ∀ i, b.size ≤ i → i < 64 * b.map.length →
    (b.map.getD (i / 64) 0).getLsbD (i % 64) = false

/-! ### generic facts -/

theorem bit_def (b : ABitmap) (p : Nat) : b.bit p = (decide (p < b.size) && testBit b.map p) := rfl

theorem Inv.size_le {b : ABitmap} (h : Inv b) : b.size ≤ 64 * b.map.length := by
  rw [h.words]; exact le_mul_divCeil64 _

theorem Inv.testBit_false {b : ABitmap} (h : Inv b) (p : Nat) (hp : b.size ≤ p) :
    testBit b.map p = false := by
  by_cases hl : p < 64 * b.map.length
  · exact h.clean_tail p hp hl
  · exact testBit_of_length_le _ _ (by omega)

/-- 6b. indices at or beyond `size` are never members -/
theorem out_of_range_clean (b : ABitmap) (p : Nat) (hp : b.size ≤ p) : b.bit p = false := by
  have : ¬ p < b.size := by omega
  simp [bit, this]

theorem bit_lt_size (b : ABitmap) (p : Nat) (h : b.bit p = true) : p < b.size := by
  simp only [bit, Bool.and_eq_true, decide_eq_true_eq] at h
  exact h.1

/-- replacing the word vector by one of the same length that agrees beyond `size` keeps `Inv` -/
theorem Inv.of_map {b : ABitmap} (h : Inv b) (m' : Words) (hl : m'.length = b.map.length)
    (ht : ∀ i, b.size ≤ i → testBit m' i = testBit b.map i) : Inv { b with map := m' } where
  page_pos := h.page_pos
  size_eq := h.size_eq
  words := by rw [← h.words]; exact hl
  clean_tail := by
    intro i hi hlt
    have := ht i hi
    unfold testBit at this
    simp only [] at hlt ⊢
    rw [this]
    exact h.clean_tail i hi (by omega)

theorem runProgram_ok (b : ABitmap) (p : List AStep) (h : p.all (stepInRange b.map) = true) :
    b.runProgram p = .ok { b with map := (runAll b.map p).1 } := by
  unfold runProgram; rw [if_pos h]

theorem getD_replicate_zero (n j : Nat) : (List.replicate n (0 : BitVec 64)).getD j 0 = 0 := by
  rw [List.getD_eq_getElem?_getD, List.getElem?_replicate]
  split <;> rfl

theorem testBit_replicate_zero (n p : Nat) : testBit (List.replicate n (0 : BitVec 64)) p = false := by
  unfold testBit; rw [getD_replicate_zero]; simp

/-! ### 1. `new` -/

theorem new_inv (bs page : Nat) (hp : 0 < page) : Inv (ABitmap.new bs page) where
  page_pos := hp
  size_eq := rfl
  words := by simp [ABitmap.new]
  clean_tail := by
    intro i _ _
    exact testBit_replicate_zero _ i

theorem new_clean (bs page : Nat) : ∀ p, (ABitmap.new bs page).bit p = false := by
  intro p
  rw [bit_def]
  have : testBit (ABitmap.new bs page).map p = false := testBit_replicate_zero _ p
  rw [this]; simp

/-! ### 2./3. `set_addr_range` / `reset_addr_range` -/

theorem rangeProgram_inRange (b : ABitmap) (hs : b.size ≤ 64 * b.map.length)
    (start len : Nat) (set : Bool) :
    (b.rangeProgram start len set).all (stepInRange b.map) = true := by
  unfold rangeProgram
  split
  · rfl
  · exact rangeSteps_inRange _ _ _ _ _ hs

theorem rangeProgram_testBit (b : ABitmap) (hs : b.size ≤ 64 * b.map.length)
    (start len : Nat) (set : Bool) (p : Nat) :
    testBit (runAll b.map (b.rangeProgram start len set)).1 p
      = if 0 < len ∧ p < b.size ∧ start / b.page ≤ p ∧
            p ≤ saturatingAdd start (len - 1) / b.page then set else testBit b.map p := by
  unfold rangeProgram
  by_cases hl : len = 0
  · have : ¬ 0 < len := by omega
    simp [hl, runAll_nil]
  · rw [if_neg hl, rangeSteps_testBit _ _ _ _ _ hs]
    have h0 : 0 < len := by omega
    by_cases hc : start / b.page ≤ p ∧ p ≤ saturatingAdd start (len - 1) / b.page ∧ p < b.size
    · have : 0 < len ∧ p < b.size ∧ start / b.page ≤ p ∧
          p ≤ saturatingAdd start (len - 1) / b.page := ⟨h0, hc.2.2, hc.1, hc.2.1⟩
      rw [if_pos hc, if_pos this]
    · have : ¬ (0 < len ∧ p < b.size ∧ start / b.page ≤ p ∧
          p ≤ saturatingAdd start (len - 1) / b.page) := fun h => hc ⟨h.2.2.1, h.2.2.2, h.2.1⟩
      rw [if_neg hc, if_neg this]

/-- `set_addr_range` / `reset_addr_range` never panic under `Inv` -/
theorem range_ok (b : ABitmap) (h : Inv b) (start len : Nat) (set : Bool) :
    ∃ b', b.setResetAddrRange start len set = .ok b' :=
  ⟨_, runProgram_ok b _ (rangeProgram_inRange b h.size_le start len set)⟩

theorem mark_ok (b : ABitmap) (h : Inv b) (start len : Nat) :
    ∃ b', b.setResetAddrRange start len true = .ok b' := range_ok b h start len true

theorem clear_ok (b : ABitmap) (h : Inv b) (start len : Nat) :
    ∃ b', b.setResetAddrRange start len false = .ok b' := range_ok b h start len false

theorem markDirty_ok (b : ABitmap) (h : Inv b) (off len : Nat) :
    ∃ b', b.markDirty off len = .ok b' := range_ok b h off len true

/-- `set_addr_range`/`reset_addr_range` set/clear exactly the in-range pages
    `start / page ..= saturating_add(start, len - 1) / page`, and nothing if `len = 0`. -/
theorem mark_spec (b : ABitmap) (h : Inv b) (start len : Nat) (set : Bool) (b' : ABitmap)
    (hr : b.setResetAddrRange start len set = .ok b') :
    Inv b' ∧ b'.size = b.size ∧ b'.byteSize = b.byteSize ∧ b'.page = b.page ∧
    ∀ p, b'.bit p =
      (if 0 < len ∧ p < b.size ∧ start / b.page ≤ p ∧
          p ≤ saturatingAdd start (len - 1) / b.page then set else b.bit p) := by
  have hok := runProgram_ok b _ (rangeProgram_inRange b h.size_le start len set)
  unfold setResetAddrRange at hr
  rw [hok] at hr
  injection hr with hr
  subst hr
  have ht := rangeProgram_testBit b h.size_le start len set
  refine ⟨?_, rfl, rfl, rfl, ?_⟩
  · apply h.of_map _ (runAll_length _ _)
    intro i hi
    rw [ht i]
    have : ¬ (0 < len ∧ i < b.size ∧ start / b.page ≤ i ∧
        i ≤ saturatingAdd start (len - 1) / b.page) := fun hc => by omega
    rw [if_neg this]
  · intro p
    rw [bit_def, bit_def]
    simp only []
    rw [ht p]
    by_cases hc : 0 < len ∧ p < b.size ∧ start / b.page ≤ p ∧
        p ≤ saturatingAdd start (len - 1) / b.page
    · rw [if_pos hc, if_pos hc]; simp [hc.2.1]
    · rw [if_neg hc, if_neg hc]

/-! ### 4. which pages a byte range touches -/

/-- For a non-empty range that does not run past the address space, the pages
    touched are exactly the pages the byte range `[start, start + len)` overlaps. -/
theorem range_pages (page start len p : Nat) (hp : 0 < page) (hl : 0 < len)
    (hfit : start + len ≤ U) :
    (start / page ≤ p ∧ p ≤ saturatingAdd start (len - 1) / page)
      ↔ ∃ a, start ≤ a ∧ a < start + len ∧ a / page = p := by
  have hsat : saturatingAdd start (len - 1) = start + len - 1 := by
    unfold saturatingAdd; rw [if_pos (by omega)]; omega
  rw [hsat]
  constructor
  · rintro ⟨h1, h2⟩
    have h2' : p * page ≤ start + len - 1 := (Nat.le_div_iff_mul_le hp).mp h2
    have h1' : start < (p + 1) * page := (Nat.div_lt_iff_lt_mul hp).mp (by omega)
    rw [Nat.succ_mul] at h1'
    refine ⟨max start (p * page), Nat.le_max_left _ _, by omega, ?_⟩
    apply Nat.div_eq_of_lt_le
    · exact Nat.le_max_right _ _
    · rw [Nat.succ_mul]; omega
  · rintro ⟨a, h1, h2, rfl⟩
    exact ⟨Nat.div_le_div_right h1, Nat.div_le_div_right (by omega)⟩

/-- the saturating case: a range running past the top of the address space touches
    every page from `start / page` up to the page of the last address `U - 1`. -/
theorem range_pages_saturated (page start len p : Nat) (hp : 0 < page) (hs : start < U)
    (hover : U < start + len) :
    (start / page ≤ p ∧ p ≤ saturatingAdd start (len - 1) / page)
      ↔ ∃ a, start ≤ a ∧ a < U ∧ a / page = p := by
  have hsat : saturatingAdd start (len - 1) = U - 1 := by
    unfold saturatingAdd; rw [if_neg (by omega)]
  rw [hsat]
  constructor
  · rintro ⟨h1, h2⟩
    have h2' : p * page ≤ U - 1 := (Nat.le_div_iff_mul_le hp).mp h2
    have h1' : start < (p + 1) * page := (Nat.div_lt_iff_lt_mul hp).mp (by omega)
    rw [Nat.succ_mul] at h1'
    refine ⟨max start (p * page), Nat.le_max_left _ _, by omega, ?_⟩
    apply Nat.div_eq_of_lt_le
    · exact Nat.le_max_right _ _
    · rw [Nat.succ_mul]; omega
  · rintro ⟨a, h1, h2, rfl⟩
    exact ⟨Nat.div_le_div_right h1, Nat.div_le_div_right (by omega)⟩

/-! ### 5. `set_bit` / `reset_bit` -/

theorem bitProgram_inRange (b : ABitmap) (hs : b.size ≤ 64 * b.map.length) (i : Nat) (set : Bool) :
    (b.bitProgram i set).all (stepInRange b.map) = true := by
  unfold bitProgram
  split
  · rfl
  · simp only [List.all_cons, List.all_nil, Bool.and_true, bitStep_index, decide_eq_true_eq]
    omega

theorem bit_ok (b : ABitmap) (h : Inv b) (i : Nat) (set : Bool) :
    ∃ b', b.setResetBit i set = .ok b' :=
  ⟨_, runProgram_ok b _ (bitProgram_inRange b h.size_le i set)⟩

/-- `set_bit`/`reset_bit` change exactly bit `i` when `i < size`, nothing otherwise -/
theorem bit_spec (b : ABitmap) (h : Inv b) (i : Nat) (set : Bool) (b' : ABitmap)
    (hr : b.setResetBit i set = .ok b') :
    Inv b' ∧ b'.size = b.size ∧ b'.byteSize = b.byteSize ∧ b'.page = b.page ∧
    ∀ p, b'.bit p = (if p = i ∧ i < b.size then set else b.bit p) := by
  have hok := runProgram_ok b _ (bitProgram_inRange b h.size_le i set)
  unfold setResetBit at hr
  rw [hok] at hr
  injection hr with hr
  subst hr
  have ht : ∀ p, testBit (runAll b.map (b.bitProgram i set)).1 p
      = if p = i ∧ i < b.size then set else testBit b.map p := by
    intro p
    unfold bitProgram
    by_cases hi : i ≥ b.size
    · have : ¬ (p = i ∧ i < b.size) := fun hc => by omega
      rw [if_pos hi, if_neg this, runAll_nil]
    · rw [if_neg hi, runAll_singleton]
      have hs := h.size_le
      rw [bitStep_run_testBit _ _ _ (by omega)]
      by_cases hp : p = i
      · rw [if_pos hp, if_pos ⟨hp, by omega⟩]
      · rw [if_neg hp, if_neg (fun hc => hp hc.1)]
  refine ⟨?_, rfl, rfl, rfl, ?_⟩
  · apply h.of_map _ (runAll_length _ _)
    intro j hj
    rw [ht j]
    have : ¬ (j = i ∧ i < b.size) := fun hc => by omega
    rw [if_neg this]
  · intro p
    rw [bit_def, bit_def]
    simp only []
    rw [ht p]
    by_cases hc : p = i ∧ i < b.size
    · rw [if_pos hc, if_pos hc]
      have : p < b.size := by omega
      simp [this]
    · rw [if_neg hc, if_neg hc]

/-! ### 6. queries -/

theorem isBitSet_eq_bit (b : ABitmap) (h : Inv b) (i : Nat) : b.isBitSet i = .ok (b.bit i) := by
  unfold isBitSet bit
  by_cases hi : i < b.size
  · have hs := h.size_le
    have hl : i / 64 < b.map.length := by omega
    rw [if_pos hi, List.getElem?_eq_getElem hl]
    simp only [hi, decide_true, Bool.true_and, List.getD_eq_getElem?_getD,
      List.getElem?_eq_getElem hl, Option.getD_some]
  · rw [if_neg hi]
    simp [hi]

theorem isBitSet_ok (b : ABitmap) (h : Inv b) (i : Nat) : ∃ v, b.isBitSet i = .ok v :=
  ⟨_, isBitSet_eq_bit b h i⟩

theorem isAddrSet_spec (b : ABitmap) (h : Inv b) (addr : Nat) :
    b.isAddrSet addr = .ok (b.bit (addr / b.page)) := isBitSet_eq_bit b h _

theorem isAddrSet_ok (b : ABitmap) (h : Inv b) (addr : Nat) : ∃ v, b.isAddrSet addr = .ok v :=
  ⟨_, isAddrSet_spec b h addr⟩

theorem dirtyAt_spec (b : ABitmap) (h : Inv b) (off : Nat) :
    b.dirtyAt off = .ok (b.bit (off / b.page)) := isBitSet_eq_bit b h _

/-! ### 7. `get_and_reset` -/

theorem getAndReset_eq (b : ABitmap) :
    b.getAndReset = ({ b with map := List.replicate b.map.length 0 }, b.map) := by
  unfold getAndReset harvestProgram
  rw [harvest_run]

/-- the harvest returns words that encode exactly the set, and leaves it empty -/
theorem getAndReset_spec (b : ABitmap) (h : Inv b) :
    Inv b.getAndReset.1 ∧
    b.getAndReset.1.size = b.size ∧ b.getAndReset.1.byteSize = b.byteSize ∧
    b.getAndReset.1.page = b.page ∧
    (∀ p, b.getAndReset.1.bit p = false) ∧
    b.getAndReset.2.length = b.map.length ∧
    ∀ p, (p < 64 * b.getAndReset.2.length ∧
          (b.getAndReset.2.getD (p / 64) 0).getLsbD (p % 64) = true) ↔ b.bit p = true := by
  rw [getAndReset_eq]
  refine ⟨?_, rfl, rfl, rfl, ?_, rfl, ?_⟩
  · apply h.of_map _ (by simp)
    intro i hi
    rw [testBit_replicate_zero, h.testBit_false i hi]
  · intro p
    rw [bit_def]
    simp only []
    rw [testBit_replicate_zero]; simp
  · intro p
    simp only []
    rw [bit_def]
    constructor
    · rintro ⟨_, h2⟩
      have hp : p < b.size := by
        apply Classical.byContradiction
        intro hn
        have := h.testBit_false p (by omega)
        unfold testBit at this
        rw [this] at h2; cases h2
      simp only [hp, decide_true, Bool.true_and]
      exact h2
    · intro hb
      simp only [Bool.and_eq_true, decide_eq_true_eq] at hb
      have := h.size_le
      exact ⟨by omega, hb.2⟩

/-- no index `≥ size` appears in the harvested words -/
theorem no_index_beyond_size (b : ABitmap) (h : Inv b) (p : Nat) (hp : b.size ≤ p) :
    (b.getAndReset.2.getD (p / 64) 0).getLsbD (p % 64) = false := by
  rw [getAndReset_eq]
  exact h.testBit_false p hp

/-! ### 8. `reset`, `clone` -/

theorem reset_eq (b : ABitmap) : b.reset = { b with map := List.replicate b.map.length 0 } := by
  unfold ABitmap.reset resetProgram
  rw [reset_run]

theorem reset_spec (b : ABitmap) (h : Inv b) :
    Inv b.reset ∧ b.reset.size = b.size ∧ b.reset.byteSize = b.byteSize ∧
    b.reset.page = b.page ∧ ∀ p, b.reset.bit p = false := by
  rw [reset_eq]
  refine ⟨?_, rfl, rfl, rfl, ?_⟩
  · apply h.of_map _ (by simp)
    intro i hi
    rw [testBit_replicate_zero, h.testBit_false i hi]
  · intro p
    rw [bit_def]
    simp only []
    rw [testBit_replicate_zero]; simp

/-- in the sequential setting `reset` and the state part of `get_and_reset` coincide -/
theorem reset_eq_getAndReset (b : ABitmap) : b.reset = b.getAndReset.1 := by
  rw [reset_eq, getAndReset_eq]

/-- the clone is an equal (and, being a value, independent) bitmap — no hypotheses -/
theorem clone_spec (b : ABitmap) : b.clone = b := by
  unfold ABitmap.clone cloneProgram
  rw [clone_run]

/-! ### 9. `enlarge` -/

theorem resizeWords_ge (m : Words) (n : Nat) (h : m.length ≤ n) :
    resizeWords m n = m ++ List.replicate (n - m.length) 0 := by
  unfold resizeWords
  by_cases hn : n ≤ m.length
  · have : n = m.length := by omega
    subst this
    simp
  · rw [if_neg hn]

theorem testBit_append_zeros (m : Words) (k p : Nat) :
    testBit (m ++ List.replicate k 0) p = testBit m p := by
  unfold testBit
  congr 1
  simp only [List.getD_eq_getElem?_getD, List.getElem?_append]
  by_cases hl : p / 64 < m.length
  · rw [if_pos hl]
  · rw [if_neg hl, List.getElem?_replicate, List.getElem?_eq_none (by omega)]
    split <;> rfl

theorem enlarge_overflow (b : ABitmap) (add : Nat) (h : U ≤ b.byteSize + add) :
    b.enlarge add = .panic := by
  have : ¬ b.byteSize + add < U := by omega
  simp [enlarge, addP, this]

/-- `enlarge` keeps every existing mark and the new pages are clean -/
theorem enlarge_spec (b : ABitmap) (h : Inv b) (add : Nat) (hfit : b.byteSize + add < U) :
    ∃ b', b.enlarge add = .ok b' ∧ Inv b' ∧ b.size ≤ b'.size ∧
      b'.byteSize = b.byteSize + add ∧ b'.page = b.page ∧ ∀ p, b'.bit p = b.bit p := by
  have hsz : b.size ≤ divCeil (b.byteSize + add) b.page := by
    rw [h.size_eq]; exact divCeil_mono _ _ _ (by omega)
  have hlen : b.map.length ≤ divCeil (divCeil (b.byteSize + add) b.page) 64 := by
    rw [h.words]; exact divCeil_mono _ _ _ hsz
  refine ⟨{ b with byteSize := b.byteSize + add,
                   size := divCeil (b.byteSize + add) b.page,
                   map := b.map ++ List.replicate
                     (divCeil (divCeil (b.byteSize + add) b.page) 64 - b.map.length) 0 },
          ?_, ?_, hsz, rfl, rfl, ?_⟩
  · simp [enlarge, addP, hfit, resizeWords_ge _ _ hlen]
  · refine ⟨h.page_pos, rfl, ?_, ?_⟩
    · simp only [List.length_append, List.length_replicate]; omega
    · intro i hi _
      simp only [] at hi ⊢
      have := testBit_append_zeros b.map
        (divCeil (divCeil (b.byteSize + add) b.page) 64 - b.map.length) i
      unfold testBit at this
      rw [this]
      exact h.testBit_false i (by omega)
  · intro p
    rw [bit_def, bit_def]
    simp only []
    rw [testBit_append_zeros]
    by_cases hp : p < b.size
    · have : p < divCeil (b.byteSize + add) b.page := by omega
      simp [hp, this]
    · rw [h.testBit_false p (by omega)]; simp

/-! ### 10. slices (`BaseSlice`: `base.wrapping_add(offset)`) -/

theorem sliceAt_sliceAt (base o1 o2 : Nat) (_h1 : o1 < U) (_h2 : o2 < U) (_hb : base < U) :
    sliceAt (sliceAt base o1) o2 = sliceAt base ((o1 + o2) % U) := by
  unfold sliceAt wrappingAdd U; omega

theorem sliceAt_lt (base off : Nat) : sliceAt base off < U := by
  unfold sliceAt wrappingAdd U; omega

theorem markVia_spec (b : ABitmap) (base off len : Nat) :
    markVia b base off len = b.setResetAddrRange ((base + off) % U) len true := rfl

theorem dirtyVia_spec (b : ABitmap) (base off : Nat) :
    dirtyVia b base off = b.isAddrSet ((base + off) % U) := rfl

/-- marking through a slice of a slice = marking through the composed slice -/
theorem markVia_sliceAt (b : ABitmap) (base o1 off len : Nat) :
    markVia b (sliceAt base o1) off len = markVia b base ((o1 + off) % U) len := by
  rw [markVia_spec, markVia_spec]
  congr 1
  unfold sliceAt wrappingAdd U; omega

theorem dirtyVia_sliceAt (b : ABitmap) (base o1 off : Nat) :
    dirtyVia b (sliceAt base o1) off = dirtyVia b base ((o1 + off) % U) := by
  rw [dirtyVia_spec, dirtyVia_spec]
  congr 1
  unfold sliceAt wrappingAdd U; omega

/-- what a mark through a slice does, and that a subsequent `dirty_at` through the
    same slice sees it -/
theorem markVia_bits (b : ABitmap) (h : Inv b) (base off len : Nat) :
    ∃ b', markVia b base off len = .ok b' ∧ Inv b' ∧
      ∀ p, b'.bit p =
        (if 0 < len ∧ p < b.size ∧ sliceAt base off / b.page ≤ p ∧
            p ≤ saturatingAdd (sliceAt base off) (len - 1) / b.page then true else b.bit p) := by
  obtain ⟨b', hb'⟩ := range_ok b h (sliceAt base off) len true
  have := mark_spec b h (sliceAt base off) len true b' hb'
  exact ⟨b', hb', this.1, this.2.2.2.2⟩

/-! ### 11. histories -/

inductive Op where
  | mark (start len : Nat)
  | clear (start len : Nat)
  | setBit (i : Nat)
  | resetBit (i : Nat)
  | harvest
  | reset
  | enlarge (add : Nat)
  deriving Repr, DecidableEq

def step (b : ABitmap) : Op → Res ABitmap
  | .mark start len  => b.setResetAddrRange start len true
  | .clear start len => b.setResetAddrRange start len false
  | .setBit i        => b.setResetBit i true
  | .resetBit i      => b.setResetBit i false
  | .harvest         => .ok b.getAndReset.1
  | .reset           => .ok b.reset
  | .enlarge add     => b.enlarge add

def runOps (b : ABitmap) : List Op → Res ABitmap
  | [] => .ok b
  | op :: rest => step b op >>= fun b' => runOps b' rest

/-- bytes by which an op grows the tracked region -/
def Op.grow : Op → Nat
  | .enlarge add => add
  | _ => 0

def growth (ops : List Op) : Nat := (ops.map Op.grow).sum

/-- the set-level specification: a bitmap is `(members, size, byteSize, page)` -/
structure ASet where
  mem : Nat → Bool
  size : Nat
  byteSize : Nat
  page : Nat

def abs (b : ABitmap) : ASet := ⟨b.bit, b.size, b.byteSize, b.page⟩

def inRange (a : ASet) (start len p : Nat) : Prop :=
  0 < len ∧ p < a.size ∧ start / a.page ≤ p ∧ p ≤ saturatingAdd start (len - 1) / a.page

instance (a : ASet) (start len p : Nat) : Decidable (inRange a start len p) := by
  unfold inRange; infer_instance

def specStep (a : ASet) : Op → ASet
  | .mark start len  => { a with mem := fun p => if inRange a start len p then true else a.mem p }
  | .clear start len => { a with mem := fun p => if inRange a start len p then false else a.mem p }
  | .setBit i        => { a with mem := fun p => if p = i ∧ i < a.size then true else a.mem p }
  | .resetBit i      => { a with mem := fun p => if p = i ∧ i < a.size then false else a.mem p }
  | .harvest         => { a with mem := fun _ => false }
  | .reset           => { a with mem := fun _ => false }
  | .enlarge add     => { a with byteSize := a.byteSize + add,
                                 size := divCeil (a.byteSize + add) a.page }

/-- every op refines its set-level specification, never panics (enlarge: under the
    no-overflow guard) and preserves `Inv` -/
theorem step_refines (b : ABitmap) (h : Inv b) (op : Op) (hsafe : b.byteSize + op.grow < U) :
    ∃ b', step b op = .ok b' ∧ Inv b' ∧ abs b' = specStep (abs b) op := by
  cases op with
  | mark start len =>
    obtain ⟨b', hb'⟩ := range_ok b h start len true
    obtain ⟨hi, h1, h2, h3, h4⟩ := mark_spec b h start len true b' hb'
    refine ⟨b', hb', hi, ?_⟩
    simp only [abs, specStep, h1, h2, h3, inRange]
    congr 1; funext p; exact h4 p
  | clear start len =>
    obtain ⟨b', hb'⟩ := range_ok b h start len false
    obtain ⟨hi, h1, h2, h3, h4⟩ := mark_spec b h start len false b' hb'
    refine ⟨b', hb', hi, ?_⟩
    simp only [abs, specStep, h1, h2, h3, inRange]
    congr 1; funext p; exact h4 p
  | setBit i =>
    obtain ⟨b', hb'⟩ := bit_ok b h i true
    obtain ⟨hi, h1, h2, h3, h4⟩ := bit_spec b h i true b' hb'
    refine ⟨b', hb', hi, ?_⟩
    simp only [abs, specStep, h1, h2, h3]
    congr 1; funext p; exact h4 p
  | resetBit i =>
    obtain ⟨b', hb'⟩ := bit_ok b h i false
    obtain ⟨hi, h1, h2, h3, h4⟩ := bit_spec b h i false b' hb'
    refine ⟨b', hb', hi, ?_⟩
    simp only [abs, specStep, h1, h2, h3]
    congr 1; funext p; exact h4 p
  | harvest =>
    obtain ⟨hi, h1, h2, h3, h4, _⟩ := getAndReset_spec b h
    refine ⟨_, rfl, hi, ?_⟩
    simp only [abs, specStep, h1, h2, h3]
    congr 1; funext p; exact h4 p
  | reset =>
    obtain ⟨hi, h1, h2, h3, h4⟩ := reset_spec b h
    refine ⟨_, rfl, hi, ?_⟩
    simp only [abs, specStep, h1, h2, h3]
    congr 1; funext p; exact h4 p
  | enlarge add =>
    obtain ⟨b', hb', hi, _, h2, h3, h4⟩ := enlarge_spec b h add hsafe
    refine ⟨b', hb', hi, ?_⟩
    have hs : b'.size = divCeil (b.byteSize + add) b.page := by rw [hi.size_eq, h2, h3]
    simp only [abs, specStep, hs, h2, h3]
    congr 1; funext p; exact h4 p

theorem specStep_byteSize (a : ASet) (op : Op) :
    (specStep a op).byteSize = a.byteSize + op.grow ∧ (specStep a op).page = a.page := by
  cases op <;> exact ⟨rfl, rfl⟩

/-- For every finite op sequence from a bitmap satisfying `Inv`, provided the total
    growth keeps `byteSize` below `2^64`: no op panics, `Inv` holds at the end, the
    final state is the one computed by the set-level specification, and every
    member is `< size`. -/
theorem inv_history (b : ABitmap) (h : Inv b) (ops : List Op)
    (hsafe : b.byteSize + growth ops < U) :
    ∃ b', runOps b ops = .ok b' ∧ Inv b' ∧ abs b' = ops.foldl specStep (abs b) ∧
      b'.byteSize = b.byteSize + growth ops ∧ b'.page = b.page ∧
      ∀ p, b'.bit p = true → p < b'.size := by
  induction ops generalizing b with
  | nil => exact ⟨b, rfl, h, rfl, rfl, rfl, bit_lt_size b⟩
  | cons op rest ih =>
    have hg : growth (op :: rest) = op.grow + growth rest := by simp [growth]
    rw [hg] at hsafe
    obtain ⟨b1, hb1, hi1, ha1⟩ := step_refines b h op (by omega)
    have hbs : b1.byteSize = b.byteSize + op.grow := by
      have := congrArg ASet.byteSize ha1
      rw [(specStep_byteSize _ _).1] at this; exact this
    have hpg : b1.page = b.page := by
      have := congrArg ASet.page ha1
      rw [(specStep_byteSize _ _).2] at this; exact this
    obtain ⟨b', hb', hi', ha', hbs', hpg', hlt⟩ := ih b1 hi1 (by omega)
    refine ⟨b', ?_, hi', ?_, ?_, ?_, hlt⟩
    · simp only [runOps, hb1, Res.bind_ok]; exact hb'
    · rw [List.foldl_cons, ← ha1]; exact ha'
    · rw [hbs', hbs, hg]; omega
    · rw [hpg', hpg]

theorem runOps_append (b : ABitmap) (pre suf : List Op) :
    runOps b (pre ++ suf) = (runOps b pre >>= fun b' => runOps b' suf) := by
  induction pre generalizing b with
  | nil => rfl
  | cons op rest ih =>
    simp only [List.cons_append, runOps]
    cases step b op with
    | ok b1 => simp only [Res.bind_ok]; exact ih b1
    | err e => rfl
    | panic => rfl

theorem growth_append (pre suf : List Op) : growth (pre ++ suf) = growth pre + growth suf := by
  simp [growth]

/-- `Inv` holds after EVERY prefix of a safe history, and the rest of the history
    continues from that intermediate bitmap -/
theorem inv_history_prefix (b : ABitmap) (h : Inv b) (pre suf : List Op)
    (hsafe : b.byteSize + growth (pre ++ suf) < U) :
    ∃ b₁, runOps b pre = .ok b₁ ∧ Inv b₁ ∧ (∀ p, b₁.bit p = true → p < b₁.size) ∧
      runOps b (pre ++ suf) = runOps b₁ suf := by
  rw [growth_append] at hsafe
  obtain ⟨b₁, hb₁, hi₁, _, _, _, hlt⟩ := inv_history b h pre (by omega)
  refine ⟨b₁, hb₁, hi₁, hlt, ?_⟩
  rw [runOps_append, hb₁, Res.bind_ok]

/-- the headline statement, from a freshly created bitmap -/
theorem new_history (bs page : Nat) (hp : 0 < page) (ops : List Op)
    (hsafe : bs + growth ops < U) :
    ∃ b', runOps (ABitmap.new bs page) ops = .ok b' ∧ Inv b' ∧
      abs b' = ops.foldl specStep ⟨fun _ => false, divCeil bs page, bs, page⟩ ∧
      ∀ p, b'.bit p = true → p < b'.size := by
  obtain ⟨b', hb', hi', ha', _, _, hlt⟩ := inv_history _ (new_inv bs page hp) ops hsafe
  refine ⟨b', hb', hi', ?_, hlt⟩
  rw [ha']
  congr 1
  simp only [abs]
  congr 1
  funext p; exact new_clean bs page p

/-- and an overflowing `enlarge` is the only way a history can panic: it does -/
theorem history_overflow_panics (b : ABitmap) (h : Inv b) (pre : List Op) (add : Nat)
    (suf : List Op) (hpre : b.byteSize + growth pre < U) (hover : U ≤ b.byteSize + growth pre + add) :
    runOps b (pre ++ .enlarge add :: suf) = .panic := by
  obtain ⟨b₁, hb₁, _, _, hbs, _, _⟩ := inv_history b h pre hpre
  rw [runOps_append, hb₁, Res.bind_ok]
  simp only [runOps, step]
  rw [enlarge_overflow b₁ add (by omega)]
  rfl

/-! ### non-vacuity -/

/-- 1000 bytes / 128-byte pages: 8 pages in one word -/
example : (ABitmap.new 1000 128).size = 8 ∧ (ABitmap.new 1000 128).map.length = 1 := by decide

/-- the program of `set_addr_range(120, 10)`: two `fetch_or`s on word 0
    (`rangeSteps` is defined by well-founded recursion, so it is unfolded by `rw`,
    not by kernel evaluation) -/
theorem ex_prog : (ABitmap.new 1000 128).rangeProgram 120 10 true
    = [.fetchOr 0 1#64, .fetchOr 0 2#64] := by
  have h1 : saturatingAdd 120 (10 - 1) / 128 = 1 := by decide
  unfold rangeProgram
  rw [if_neg (by decide)]
  show rangeSteps 8 0 (saturatingAdd 120 (10 - 1) / 128) true = _
  rw [h1, rangeSteps, if_pos (by decide), rangeSteps, if_pos (by decide), rangeSteps,
    if_neg (by decide)]
  decide

/-- marking bytes `[120, 130)` sets exactly pages 0 and 1 -/
theorem ex_mark : (ABitmap.new 1000 128).setResetAddrRange 120 10 true
    = .ok ⟨[3#64], 8, 1000, 128⟩ := by
  unfold setResetAddrRange
  rw [ex_prog]
  decide

example : (⟨[3#64], 8, 1000, 128⟩ : ABitmap).bit 0 = true
    ∧ (⟨[3#64], 8, 1000, 128⟩ : ABitmap).bit 1 = true
    ∧ (⟨[3#64], 8, 1000, 128⟩ : ABitmap).bit 2 = false := by decide

/-- the same through `mark_spec` (no evaluation of the program) -/
example (b' : ABitmap) (hr : (ABitmap.new 1000 128).setResetAddrRange 120 10 true = .ok b') :
    b'.bit 0 = true ∧ b'.bit 1 = true ∧ b'.bit 2 = false := by
  obtain ⟨_, _, _, _, hb⟩ := mark_spec _ (new_inv 1000 128 (by decide)) 120 10 true b' hr
  refine ⟨?_, ?_, ?_⟩
  · rw [hb 0]; decide
  · rw [hb 1]; decide
  · rw [hb 2]; decide

/-- a harvest after the mark returns word `3` and leaves the bitmap clean -/
example : (⟨[3#64], 8, 1000, 128⟩ : ABitmap).getAndReset = (⟨[0#64], 8, 1000, 128⟩, [3#64]) := by
  decide

/-- `Inv` is needed: a bitmap whose word vector is too short panics -/
example : (⟨[], 8, 1000, 128⟩ : ABitmap).setResetBit 0 true = .panic := by decide
example : (⟨[], 8, 1000, 128⟩ : ABitmap).isBitSet 0 = .panic := by decide

end VmMem.C09

#print axioms VmMem.C09.new_inv
#print axioms VmMem.C09.new_clean
#print axioms VmMem.C09.mark_ok
#print axioms VmMem.C09.clear_ok
#print axioms VmMem.C09.range_ok
#print axioms VmMem.C09.markDirty_ok
#print axioms VmMem.C09.bit_ok
#print axioms VmMem.C09.isBitSet_ok
#print axioms VmMem.C09.isAddrSet_ok
#print axioms VmMem.C09.mark_spec
#print axioms VmMem.C09.range_pages
#print axioms VmMem.C09.range_pages_saturated
#print axioms VmMem.C09.bit_spec
#print axioms VmMem.C09.isBitSet_eq_bit
#print axioms VmMem.C09.out_of_range_clean
#print axioms VmMem.C09.isAddrSet_spec
#print axioms VmMem.C09.dirtyAt_spec
#print axioms VmMem.C09.getAndReset_spec
#print axioms VmMem.C09.no_index_beyond_size
#print axioms VmMem.C09.reset_spec
#print axioms VmMem.C09.reset_eq_getAndReset
#print axioms VmMem.C09.clone_spec
#print axioms VmMem.C09.enlarge_spec
#print axioms VmMem.C09.enlarge_overflow
#print axioms VmMem.C09.sliceAt_sliceAt
#print axioms VmMem.C09.markVia_spec
#print axioms VmMem.C09.dirtyVia_spec
#print axioms VmMem.C09.markVia_sliceAt
#print axioms VmMem.C09.dirtyVia_sliceAt
#print axioms VmMem.C09.markVia_bits
#print axioms VmMem.C09.step_refines
#print axioms VmMem.C09.inv_history
#print axioms VmMem.C09.inv_history_prefix
#print axioms VmMem.C09.new_history
#print axioms VmMem.C09.history_overflow_panics
