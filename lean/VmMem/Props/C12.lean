/-
  VmMem.Props.C12 — a mapping lives exactly as long as something can still reach it.

  `Inv` holds in the empty state and is preserved by every operation (`step_inv`), hence
  after every history (`run_inv`).  Corollaries: no live handle designates an unmapped
  region (`no_dangling`); once every handle is gone every owned mapping has been unmapped
  exactly once (`no_leak`); externally provided mappings are never unmapped
  (`external_untouched`).
-/
import VmMem.Model.Lifetime
import VmMem.Lemmas.LifetimeLemmas
namespace VmMem.C12
open VmMem VmMem.Lifetime

structure Inv (s : St) : Prop where
  rid_nodup : (s.maps.map (·.rid)).Nodup
  hid_nodup : (s.handles.map (·.hid)).Nodup
  refs_exist : ∀ h ∈ s.handles, ∀ r ∈ h.refs, ∃ m ∈ s.maps, m.rid = r
  owned_mapped_iff : ∀ m ∈ s.maps, m.owned = true → (m.mapped = true ↔ refcount s m.rid > 0)
  unmaps_le_one : ∀ m ∈ s.maps, m.unmaps ≤ 1
  unmapped_iff : ∀ m ∈ s.maps, m.owned = true → (m.unmaps = 1 ↔ m.mapped = false)
  external_never : ∀ m ∈ s.maps, m.owned = false → m.unmaps = 0 ∧ m.mapped = true

theorem init_inv : Inv {} := by
  constructor <;> simp

/-! ### the two shapes of a state change -/

/-- only the handle list changes, and exactly the same region ids stay reachable -/
theorem inv_handles (s : St) (hs' : List Handle) (h : Inv s)
    (hnd : (hs'.map (·.hid)).Nodup)
    (hreach : ∀ rid, Reach hs' rid ↔ Reach s.handles rid) : Inv { s with handles := hs' } := by
  have hrc : ∀ rid, refcount { s with handles := hs' } rid > 0 ↔ refcount s rid > 0 := by
    intro rid; rw [refcount_pos_iff, refcount_pos_iff]; exact hreach rid
  refine ⟨h.rid_nodup, hnd, ?_, ?_, h.unmaps_le_one, h.unmapped_iff, h.external_never⟩
  · intro hd hhd r hr
    obtain ⟨h0, hh0, hr0⟩ := (hreach r).1 ⟨hd, hhd, hr⟩
    exact h.refs_exist h0 hh0 r hr0
  · intro m hm ho; rw [hrc]; exact h.owned_mapped_iff m hm ho

/-- what `collect` does to one mapping -/
def collectMap (s : St) (m : Mapping) : Mapping :=
  if m.mapped && m.owned && refcount s m.rid == 0 then { m with mapped := false, unmaps := m.unmaps + 1 } else m

theorem collect_eq (s : St) : collect s = { s with maps := s.maps.map (collectMap s) } := rfl

theorem collectMap_rid (s : St) (m : Mapping) : (collectMap s m).rid = m.rid := by
  unfold collectMap; split <;> rfl

theorem collectMap_owned (s : St) (m : Mapping) : (collectMap s m).owned = m.owned := by
  unfold collectMap; split <;> rfl

/-- the per-mapping part of the invariant survives `collect` when references only went away -/
theorem collectMap_ok (s1 : St) (m : Mapping) (rcOld : Nat)
    (hle : refcount s1 m.rid > 0 → rcOld > 0)
    (p1 : m.owned = true → (m.mapped = true ↔ rcOld > 0))
    (p2 : m.unmaps ≤ 1)
    (p3 : m.owned = true → (m.unmaps = 1 ↔ m.mapped = false))
    (p4 : m.owned = false → m.unmaps = 0 ∧ m.mapped = true) :
    ((collectMap s1 m).owned = true → ((collectMap s1 m).mapped = true ↔ refcount s1 m.rid > 0)) ∧
    (collectMap s1 m).unmaps ≤ 1 ∧
    ((collectMap s1 m).owned = true → ((collectMap s1 m).unmaps = 1 ↔ (collectMap s1 m).mapped = false)) ∧
    ((collectMap s1 m).owned = false → (collectMap s1 m).unmaps = 0 ∧ (collectMap s1 m).mapped = true) := by
  rcases m with ⟨rid, owned, mapped, unmaps⟩
  unfold collectMap
  by_cases hz : refcount s1 rid = 0 <;> cases owned <;> cases mapped <;> simp_all <;> omega

/-- handles are removed (references only go away), then `collect` runs -/
theorem inv_collect (s : St) (hs' : List Handle) (h : Inv s)
    (hnd : (hs'.map (·.hid)).Nodup)
    (hsub : ∀ rid, Reach hs' rid → Reach s.handles rid) : Inv (collect { s with handles := hs' }) := by
  have hrc : ∀ rid, refcount { s with handles := hs' } rid > 0 → refcount s rid > 0 := by
    intro rid; rw [refcount_pos_iff, refcount_pos_iff]; exact hsub rid
  have key : ∀ m ∈ s.maps, _ := fun m hm =>
    collectMap_ok { s with handles := hs' } m (refcount s m.rid) (hrc m.rid)
      (h.owned_mapped_iff m hm) (h.unmaps_le_one m hm) (h.unmapped_iff m hm) (h.external_never m hm)
  rw [collect_eq]
  constructor
  · show ((s.maps.map (collectMap _)).map (·.rid)).Nodup
    rw [List.map_map]
    have : ((fun m : Mapping => m.rid) ∘ collectMap { s with handles := hs' }) = (fun m => m.rid) :=
      funext fun m => collectMap_rid _ m
    rw [this]; exact h.rid_nodup
  · exact hnd
  · intro hd hhd r hr
    obtain ⟨h0, hh0, hr0⟩ := hsub r ⟨hd, hhd, hr⟩
    obtain ⟨m, hm, e⟩ := h.refs_exist h0 hh0 r hr0
    exact ⟨collectMap _ m, List.mem_map.2 ⟨m, hm, rfl⟩, by rw [collectMap_rid]; exact e⟩
  · intro m' hm'
    obtain ⟨m, hm, rfl⟩ := List.mem_map.1 hm'
    rw [collectMap_rid]
    exact (key m hm).1
  · intro m' hm'
    obtain ⟨m, hm, rfl⟩ := List.mem_map.1 hm'
    exact (key m hm).2.1
  · intro m' hm'
    obtain ⟨m, hm, rfl⟩ := List.mem_map.1 hm'
    exact (key m hm).2.2.1
  · intro m' hm'
    obtain ⟨m, hm, rfl⟩ := List.mem_map.1 hm'
    exact (key m hm).2.2.2

/-! ### the six operations -/

theorem create_inv (s : St) (hid rid : Nat) (owned : Bool) (h : Inv s) : Inv (step s (.create hid rid owned)) := by
  simp only [step]
  split
  · rename_i hc
    simp only [Bool.and_eq_true, Option.isNone_iff_eq_none, List.find?_eq_none] at hc
    obtain ⟨hfr, hnew⟩ := hc
    have hfr' := (fresh_iff s hid).1 hfr
    have hnew' : ∀ m ∈ s.maps, m.rid ≠ rid := fun m hm => by simpa using hnew m hm
    have hrc : ∀ r, refcount { maps := s.maps ++ [{ rid := rid, owned := owned, mapped := true, unmaps := 0 }],
                               handles := s.handles ++ [{ hid := hid, refs := [rid] }] } r
                  = refcount s r + (if rid = r then 1 else 0) := by
      intro r
      simp only [refcount, List.map_append, List.sum_append, List.map_cons, List.map_nil, List.sum_cons,
        List.sum_nil, List.count_cons, List.count_nil]
      by_cases e : rid = r <;> simp [e]
    constructor
    · show ((s.maps ++ [_]).map (fun m : Mapping => m.rid)).Nodup
      rw [List.map_append, List.nodup_append]
      refine ⟨h.rid_nodup, by simp, ?_⟩
      intro a ha b hb
      obtain ⟨m, hm, rfl⟩ := List.mem_map.1 ha
      simp only [List.map_cons, List.map_nil, List.mem_singleton] at hb
      subst hb
      exact hnew' m hm
    · exact nodup_snoc _ h.hid_nodup _ hfr'
    · intro hd hhd r hr
      rcases List.mem_append.1 hhd with hh | hh
      · obtain ⟨m, hm, e⟩ := h.refs_exist hd hh r hr
        exact ⟨m, List.mem_append_left _ hm, e⟩
      · simp only [List.mem_singleton] at hh
        subst hh
        simp only [List.mem_singleton] at hr
        subst hr
        exact ⟨_, List.mem_append_right _ (List.mem_singleton.2 rfl), rfl⟩
    · intro m hm ho
      rw [hrc]
      rcases List.mem_append.1 hm with hh | hh
      · have := h.owned_mapped_iff m hh ho
        have hne := hnew' m hh
        rw [this, if_neg (fun e => hne e.symm)]
        omega
      · simp only [List.mem_singleton] at hh
        subst hh
        simp
    · intro m hm
      rcases List.mem_append.1 hm with hh | hh
      · exact h.unmaps_le_one m hh
      · simp only [List.mem_singleton] at hh
        subst hh; simp
    · intro m hm ho
      rcases List.mem_append.1 hm with hh | hh
      · exact h.unmapped_iff m hh ho
      · simp only [List.mem_singleton] at hh
        subst hh; simp
    · intro m hm ho
      rcases List.mem_append.1 hm with hh | hh
      · exact h.external_never m hh ho
      · simp only [List.mem_singleton] at hh
        subst hh; simp
  · exact h

theorem build_inv (s : St) (hid : Nat) (parts : List Nat) (h : Inv s) : Inv (step s (.build hid parts)) := by
  simp only [step]
  split
  · rename_i hc
    simp only [Bool.and_eq_true, List.all_eq_true, Option.isSome_iff_exists, decide_eq_true_eq] at hc
    obtain ⟨⟨hfr, hall⟩, _hpn⟩ := hc
    have hfr' := (fresh_iff s hid).1 hfr
    apply inv_handles s _ h
    · exact nodup_snoc _ (nodup_filter _ _ h.hid_nodup) _
        (fun x hx => hfr' x ((List.mem_filter.1 hx).1))
    · intro rid
      unfold Reach
      constructor
      · rintro ⟨x, hx, hr⟩
        rcases List.mem_append.1 hx with hh | hh
        · exact ⟨x, (List.mem_filter.1 hh).1, hr⟩
        · simp only [List.mem_singleton] at hh
          subst hh
          simp only [List.mem_flatMap] at hr
          obtain ⟨p, _hp, hr⟩ := hr
          cases hf : findH s p with
          | none => simp [hf] at hr
          | some y =>
            simp only [hf, Option.map_some, Option.getD_some] at hr
            exact ⟨y, (findH_some s p y hf).1, hr⟩
      · rintro ⟨x, hx, hr⟩
        by_cases hp : x.hid ∈ parts
        · refine ⟨_, List.mem_append_right _ (List.mem_singleton.2 rfl), ?_⟩
          simp only [List.mem_flatMap]
          refine ⟨x.hid, hp, ?_⟩
          rw [findH_of_mem s h.hid_nodup x hx]
          exact hr
        · refine ⟨x, List.mem_append_left _ (List.mem_filter.2 ⟨hx, ?_⟩), hr⟩
          simpa using hp
  · exact h

theorem insert_inv (s : St) (hid src reg : Nat) (h : Inv s) : Inv (step s (.insert hid src reg)) := by
  simp only [step]
  split
  · rename_i hs hr hfs hfr
    split
    · rename_i hc
      simp only [Bool.and_eq_true, bne_iff_ne, ne_eq] at hc
      obtain ⟨hfresh, hne⟩ := hc
      have hfr' := (fresh_iff s hid).1 hfresh
      obtain ⟨hsm, hsid⟩ := findH_some s src hs hfs
      obtain ⟨hrm, hrid⟩ := findH_some s reg hr hfr
      apply inv_handles s _ h
      · exact nodup_snoc _ (nodup_filter _ _ h.hid_nodup) _
          (fun x hx => hfr' x ((List.mem_filter.1 hx).1))
      · intro rid
        unfold Reach removeH
        constructor
        · rintro ⟨x, hx, hrx⟩
          rcases List.mem_append.1 hx with hh | hh
          · exact ⟨x, (List.mem_filter.1 hh).1, hrx⟩
          · simp only [List.mem_singleton] at hh
            subst hh
            rcases List.mem_append.1 hrx with h1 | h1
            · exact ⟨hs, hsm, h1⟩
            · exact ⟨hr, hrm, h1⟩
        · rintro ⟨x, hx, hrx⟩
          by_cases hp : x.hid = reg
          · refine ⟨_, List.mem_append_right _ (List.mem_singleton.2 rfl), ?_⟩
            have : findH s x.hid = some x := findH_of_mem s h.hid_nodup x hx
            rw [hp, hfr] at this
            cases this
            exact List.mem_append_right _ hrx
          · refine ⟨x, List.mem_append_left _ (List.mem_filter.2 ⟨hx, ?_⟩), hrx⟩
            simpa using hp
    · exact h
  · exact h

theorem remove_inv (s : St) (hid hreg src rid : Nat) (h : Inv s) : Inv (step s (.remove hid hreg src rid)) := by
  simp only [step]
  split
  · rename_i hs hfs
    split
    · rename_i hc
      simp only [Bool.and_eq_true, bne_iff_ne, ne_eq, List.contains_iff_mem] at hc
      obtain ⟨⟨⟨hf1, hf2⟩, hne⟩, hmem⟩ := hc
      have hf1' := (fresh_iff s hid).1 hf1
      have hf2' := (fresh_iff s hreg).1 hf2
      obtain ⟨hsm, hsid⟩ := findH_some s src hs hfs
      apply inv_handles s _ h
      · have e : s.handles ++ [{ hid := hid, refs := hs.refs.erase rid }, { hid := hreg, refs := [rid] }]
            = (s.handles ++ [{ hid := hid, refs := hs.refs.erase rid }]) ++ [({ hid := hreg, refs := [rid] } : Handle)] := by
          simp
        rw [e]
        apply nodup_snoc _ (nodup_snoc _ h.hid_nodup _ hf1')
        intro x hx
        rcases List.mem_append.1 hx with hh | hh
        · exact hf2' x hh
        · simp only [List.mem_singleton] at hh
          subst hh; exact hne
      · intro r
        unfold Reach
        constructor
        · rintro ⟨x, hx, hrx⟩
          rcases List.mem_append.1 hx with hh | hh
          · exact ⟨x, hh, hrx⟩
          · simp only [List.mem_cons, List.not_mem_nil, or_false] at hh
            rcases hh with hh | hh
            · subst hh
              exact ⟨hs, hsm, List.mem_of_mem_erase hrx⟩
            · subst hh
              simp only [List.mem_singleton] at hrx
              subst hrx
              exact ⟨hs, hsm, hmem⟩
        · rintro ⟨x, hx, hrx⟩
          exact ⟨x, List.mem_append_left _ hx, hrx⟩
    · exact h
  · exact h

theorem clone_inv (s : St) (hid src : Nat) (h : Inv s) : Inv (step s (.clone hid src)) := by
  simp only [step]
  split
  · rename_i hs hfs
    split
    · rename_i hfresh
      have hfr' := (fresh_iff s hid).1 hfresh
      obtain ⟨hsm, hsid⟩ := findH_some s src hs hfs
      apply inv_handles s _ h
      · exact nodup_snoc _ h.hid_nodup _ hfr'
      · intro r
        unfold Reach
        constructor
        · rintro ⟨x, hx, hrx⟩
          rcases List.mem_append.1 hx with hh | hh
          · exact ⟨x, hh, hrx⟩
          · simp only [List.mem_singleton] at hh
            subst hh
            exact ⟨hs, hsm, hrx⟩
        · rintro ⟨x, hx, hrx⟩
          exact ⟨x, List.mem_append_left _ hx, hrx⟩
    · exact h
  · exact h

theorem drop_inv (s : St) (hid : Nat) (h : Inv s) : Inv (step s (.drop hid)) := by
  simp only [step]
  apply inv_collect s _ h
  · exact nodup_filter _ _ h.hid_nodup
  · rintro r ⟨x, hx, hrx⟩
    exact ⟨x, (List.mem_filter.1 hx).1, hrx⟩

theorem step_inv (s : St) (op : Op) (h : Inv s) : Inv (step s op) := by
  cases op with
  | create hid rid owned => exact create_inv s hid rid owned h
  | build hid parts => exact build_inv s hid parts h
  | insert hid src reg => exact insert_inv s hid src reg h
  | remove hid hreg src rid => exact remove_inv s hid hreg src rid h
  | clone hid src => exact clone_inv s hid src h
  | drop hid => exact drop_inv s hid h

theorem run_inv (s : St) (ops : List Op) (h : Inv s) : Inv (run s ops) := by
  unfold run
  induction ops generalizing s with
  | nil => exact h
  | cons op rest ih => exact ih (step s op) (step_inv s op h)

/-- every state reachable from the empty state satisfies the invariant -/
theorem reachable_inv (ops : List Op) : Inv (run {} ops) := run_inv _ ops init_inv

/-! ### corollaries -/

/-- no live handle designates an unmapped resource -/
theorem no_dangling {s : St} (h : Inv s) :
    ∀ hd ∈ s.handles, ∀ r ∈ hd.refs, ∀ m ∈ s.maps, m.rid = r → m.mapped = true := by
  intro hd hhd r hr m hm e
  cases ho : m.owned with
  | false => exact (h.external_never m hm ho).2
  | true =>
    rw [h.owned_mapped_iff m hm ho, refcount_pos_iff]
    exact ⟨hd, hhd, e ▸ hr⟩

/-- and the designated mapping exists -/
theorem no_dangling_exists {s : St} (h : Inv s) :
    ∀ hd ∈ s.handles, ∀ r ∈ hd.refs, ∃ m ∈ s.maps, m.rid = r ∧ m.mapped = true := by
  intro hd hhd r hr
  obtain ⟨m, hm, e⟩ := h.refs_exist hd hhd r hr
  exact ⟨m, hm, e, no_dangling h hd hhd r hr m hm e⟩

/-- dropping everything, in any order, unmaps every owned mapping exactly once -/
theorem no_leak {s : St} (h : Inv s) (he : s.handles = []) :
    ∀ m ∈ s.maps, m.owned = true → m.mapped = false ∧ m.unmaps = 1 := by
  intro m hm ho
  have h0 : ¬ (refcount s m.rid > 0) := by
    rw [refcount_pos_iff, he]; rintro ⟨x, hx, _⟩; cases hx
  have hmf : m.mapped = false := by
    cases hmm : m.mapped with
    | false => rfl
    | true => exact absurd ((h.owned_mapped_iff m hm ho).1 hmm) h0
  exact ⟨hmf, (h.unmapped_iff m hm ho).2 hmf⟩

/-- an owned mapping nobody references any more has been unmapped exactly once (per mapping,
    without waiting for all handles to go) -/
theorem unreferenced_unmapped_once {s : St} (h : Inv s) :
    ∀ m ∈ s.maps, m.owned = true → refcount s m.rid = 0 → m.mapped = false ∧ m.unmaps = 1 := by
  intro m hm ho hz
  have hmf : m.mapped = false := by
    cases hmm : m.mapped with
    | false => rfl
    | true => have := (h.owned_mapped_iff m hm ho).1 hmm; omega
  exact ⟨hmf, (h.unmapped_iff m hm ho).2 hmf⟩

/-- a still-referenced owned mapping has never been unmapped -/
theorem referenced_never_unmapped {s : St} (h : Inv s) :
    ∀ m ∈ s.maps, m.owned = true → refcount s m.rid > 0 → m.mapped = true ∧ m.unmaps = 0 := by
  intro m hm ho hp
  have hmt := (h.owned_mapped_iff m hm ho).2 hp
  have h1 := h.unmaps_le_one m hm
  have h2 := h.unmapped_iff m hm ho
  refine ⟨hmt, ?_⟩
  have : m.unmaps ≠ 1 := fun e => by rw [h2.1 e] at hmt; cases hmt
  omega

/-- the library never unmaps a mapping it did not create -/
theorem external_untouched {s : St} (h : Inv s) :
    ∀ m ∈ s.maps, m.owned = false → m.mapped = true ∧ m.unmaps = 0 := by
  intro m hm ho
  exact ⟨(h.external_never m hm ho).2, (h.external_never m hm ho).1⟩

/-- after any history whatsoever -/
theorem no_leak_run (ops : List Op) (he : (run {} ops).handles = []) :
    ∀ m ∈ (run {} ops).maps, m.owned = true → m.mapped = false ∧ m.unmaps = 1 :=
  no_leak (reachable_inv ops) he

theorem no_dangling_run (ops : List Op) :
    ∀ hd ∈ (run {} ops).handles, ∀ r ∈ hd.refs, ∃ m ∈ (run {} ops).maps, m.rid = r ∧ m.mapped = true :=
  no_dangling_exists (reachable_inv ops)

theorem external_untouched_run (ops : List Op) :
    ∀ m ∈ (run {} ops).maps, m.owned = false → m.mapped = true ∧ m.unmaps = 0 :=
  external_untouched (reachable_inv ops)

/-! ### non-vacuity: a 7-operation history -/

/-- two regions (one owned, one external), a map built from them, a clone, a removal, then
    drops in an odd order -/
def demo : List Op :=
  [.create 1 10 true, .create 2 20 false, .build 3 [1, 2], .clone 4 3, .remove 5 6 3 10, .drop 3, .drop 5]

/-- after the seven operations: handles 4 (clone: both regions) and 6 (removed-region handle on
    10) are live, nothing has been unmapped -/
example : run {} demo =
    { maps := [{ rid := 10, owned := true, mapped := true, unmaps := 0 },
               { rid := 20, owned := false, mapped := true, unmaps := 0 }],
      handles := [{ hid := 4, refs := [10, 20] }, { hid := 6, refs := [10] }] } := by decide

/-- dropping the clone leaves region 10 alive through the removed-region handle -/
example : run {} (demo ++ [.drop 4]) =
    { maps := [{ rid := 10, owned := true, mapped := true, unmaps := 0 },
               { rid := 20, owned := false, mapped := true, unmaps := 0 }],
      handles := [{ hid := 6, refs := [10] }] } := by decide

/-- dropping the last handle unmaps the owned region exactly once and leaves the external one alone -/
example : run {} (demo ++ [.drop 4, .drop 6]) =
    { maps := [{ rid := 10, owned := true, mapped := false, unmaps := 1 },
               { rid := 20, owned := false, mapped := true, unmaps := 0 }],
      handles := [] } := by decide

/-- dropping an already dropped handle again changes nothing (no double unmap) -/
example : run {} (demo ++ [.drop 4, .drop 6, .drop 6, .drop 4]) =
    { maps := [{ rid := 10, owned := true, mapped := false, unmaps := 1 },
               { rid := 20, owned := false, mapped := true, unmaps := 0 }],
      handles := [] } := by decide

end VmMem.C12

#print axioms VmMem.C12.init_inv
#print axioms VmMem.C12.step_inv
#print axioms VmMem.C12.run_inv
#print axioms VmMem.C12.reachable_inv
#print axioms VmMem.C12.no_dangling
#print axioms VmMem.C12.no_dangling_exists
#print axioms VmMem.C12.no_leak
#print axioms VmMem.C12.unreferenced_unmapped_once
#print axioms VmMem.C12.referenced_never_unmapped
#print axioms VmMem.C12.external_untouched
#print axioms VmMem.C12.no_leak_run
#print axioms VmMem.C12.no_dangling_run
#print axioms VmMem.C12.external_untouched_run
