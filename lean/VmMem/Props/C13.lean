/-
  VmMem.Props.C13 — the `ReadVolatile` / `WriteVolatile` adapters for `&[u8]`, `&mut [u8]`,
  `Vec<u8>` and `Cursor<_>` equal their `std::io::Read` / `std::io::Write` counterparts.

  The std side is the small model `VmMem.C13.Std` below, written from the std documentation:
  an ordinary buffer of `s.size` bytes stands for the `VolatileSlice`.  A `Reader`/`Writer`
  with an empty script is the plain adapter (an exhausted script behaves as `full`).

  Standing hypotheses: `BmInv m` (dirty marking cannot panic), `InB m s` (the slice lies in
  the container); `o := s.addr - m.base`, `splice l o d = l.take o ++ d ++ l.drop (o + d.length)`.
-/
import VmMem.Lemmas.IoLemmas
namespace VmMem.C13
open VmMem IoLemmas VolatileLemmas

/-! ### the std model (from the std documentation / source of `std::io`) -/
namespace Std

/-- `impl Read for &[u8]`: `amt = min(buf.len(), self.len())`; copies `self[..amt]` to the front
    of `buf`; `*self = &self[amt..]`.  Returns `(n, bytes put at the front of buf, remaining)`. -/
def readSlice (data : List UInt8) (buflen : Nat) : Nat × List UInt8 × List UInt8 :=
  let amt := min buflen data.length
  (amt, data.take amt, data.drop amt)

/-- `<&[u8] as Read>::read_exact`: `Err(UnexpectedEof)` iff `buf.len() > self.len()`; on success
    fills the whole buffer and consumes `buf.len()` bytes.  (What is left of the slice after a
    failure is not specified by the trait; vm-memory leaves it unchanged.) -/
def readExactSlice (data : List UInt8) (buflen : Nat) : Res (List UInt8 × List UInt8) :=
  if buflen > data.length then .err (.ioError IoKind.unexpectedEof)
  else .ok (data.take buflen, data.drop buflen)

/-- `Cursor<T: AsRef<[u8]>>::read`: `Read::read(&mut inner[min(pos, len)..], buf)`, `pos += n`.
    Returns `(n, bytes put at the front of buf, new position)`. -/
def cursorRead (inner : List UInt8) (pos buflen : Nat) : Nat × List UInt8 × Nat :=
  let (n, moved, _) := readSlice (inner.drop (min pos inner.length)) buflen
  (n, moved, pos + n)

/-- `Cursor::read_exact`: `read_exact` on the remaining slice; the position advances by
    `buf.len()` on success. -/
def cursorReadExact (inner : List UInt8) (pos buflen : Nat) : Res (List UInt8 × Nat) :=
  match readExactSlice (inner.drop (min pos inner.length)) buflen with
  | .ok (moved, _) => .ok (moved, pos + buflen)
  | .err e => .err e
  | .panic => .panic

/-- `impl Write for &mut [u8]`: `amt = min(data.len(), self.len())`; copies `data[..amt]` into the
    front of the slice; the slice becomes its tail.  Returns `(n, contents of the old slice
    afterwards)`; the new (remaining) slice is the last `room.length - n` bytes of it. -/
def writeMutSlice (room src : List UInt8) : Nat × List UInt8 :=
  let amt := min src.length room.length
  (amt, src.take amt ++ room.drop amt)

/-- `<&mut [u8] as Write>::write_all`: `if self.write(data)? == data.len() { Ok(()) } else
    { Err(WriteZero) }` — the prefix that fits is written in either case. -/
def writeAllMutSlice (room src : List UInt8) : List UInt8 × Res Unit :=
  let (n, room') := writeMutSlice room src
  (room', if n = src.length then .ok () else .err (.ioError IoKind.writeZero))

/-- `impl Write for Vec<u8>`: `extend_from_slice`, returns `buf.len()` -/
def writeVec (v src : List UInt8) : List UInt8 × Nat := (v ++ src, src.length)

/-- `Cursor<&mut [u8]>::write`: `(&mut inner[min(pos, len)..]).write(buf)`, `pos += n`.
    Returns `(n, inner afterwards, new position)`. -/
def cursorWrite (inner : List UInt8) (pos : Nat) (src : List UInt8) : Nat × List UInt8 × Nat :=
  let p := min pos inner.length
  let (n, room') := writeMutSlice (inner.drop p) src
  (n, inner.take p ++ room', pos + n)

end Std

/-- the bytes of slice `s` as an ordinary `&[u8]` -/
def srcBytes (m : Mem) (s : VSlice) : List UInt8 := (m.bytes.drop (s.addr - m.base)).take s.size

theorem srcBytes_length {m : Mem} {s : VSlice} (hin : InB m s) : (srcBytes m s).length = s.size := by
  unfold InB at hin
  simp [srcBytes]; omega

/-! ### 1–3. readers with an empty script -/

theorem next_of_nil {r : Reader} (hs : r.script = []) : r.next = r := by
  cases r with | mk k d p sc => simp at hs; subst hs; rfl

theorem hd_of_nil {σ : List Beh} (hs : σ = []) : hd σ = .full := by subst hs; rfl

/-- one call with an empty script: `n = min(s.size, available)` bytes, for every kind -/
theorem readVolatile_nil (r : Reader) (m : Mem) (s : VSlice) (hs : r.script = [])
    (hbm : BmInv m) (hin : InB m s) :
    ∃ m', r.readVolatile m s =
        (m', r.advance (min s.size r.avail.length), .ok (min s.size r.avail.length)) ∧
      m'.bytes = splice m.bytes (s.addr - m.base) (r.avail.take (min s.size r.avail.length)) ∧
      m'.base = m.base ∧ BmInv m' := by
  have hx : xfer (hd r.script) s.size r.avail.length = some (min s.size r.avail.length) := by
    rw [hd_of_nil hs]; rfl
  obtain ⟨m', h, h2⟩ := Reader.readVolatile_ok hbm hin hx
  rw [next_of_nil hs] at h
  exact ⟨m', h, h2⟩

/-- bytes outside `[o, o + n)` are untouched by a splice of `n` bytes taken from `a` -/
theorem frame_of_splice {l l' a : List UInt8} {o n : Nat} (h : l' = splice l o (a.take n))
    (hn : n ≤ a.length) (ho : o + n ≤ l.length) (i : Nat) (hi : i < o ∨ o + n ≤ i) :
    l'[i]? = l[i]? := by
  have hl : (a.take n).length = n := List.length_take_of_le hn
  rw [h]; exact splice_frame _ _ _ (by omega) i (by omega)

/-- C13.1 `adapter_eq_std` for `&[u8]`: `read_volatile` moves the same bytes, returns the same
    count and leaves the same remaining stream as `Read::read` into an ordinary buffer of
    `s.size` bytes; nothing outside `[o, o + n)` is touched. -/
theorem slice_read_eq_std (r : Reader) (m : Mem) (s : VSlice) (hk : r.kind = .slice)
    (hs : r.script = []) (hbm : BmInv m) (hin : InB m s) :
    ∃ m', r.readVolatile m s =
        (m', { r with data := (Std.readSlice r.data s.size).2.2 },
          .ok (Std.readSlice r.data s.size).1) ∧
      m'.bytes = splice m.bytes (s.addr - m.base) (Std.readSlice r.data s.size).2.1 ∧
      (∀ i, i < s.addr - m.base ∨ s.addr - m.base + (Std.readSlice r.data s.size).1 ≤ i →
        m'.bytes[i]? = m.bytes[i]?) ∧
      m'.base = m.base ∧ BmInv m' := by
  obtain ⟨m', h, hb, hbase, hinv⟩ := readVolatile_nil r m s hs hbm hin
  have hav : r.avail = r.data := by unfold Reader.avail; rw [hk]
  have hadv : ∀ n, r.advance n = { r with data := r.data.drop n } := by
    intro n; unfold Reader.advance; rw [hk]
  rw [hav] at h hb
  rw [hadv] at h
  unfold InB at hin
  refine ⟨m', h, hb, ?_, hbase, hinv⟩
  exact frame_of_splice hb (by simp only [Std.readSlice]; omega)
    (by simp only [Std.readSlice]; omega)

/-- the overriding `read_exact_volatile` of `&[u8]` and `Cursor` -/
theorem readExact_override (r : Reader) (m : Mem) (s : VSlice)
    (hk : r.kind = .slice ∨ r.kind = .cursor) :
    r.readExact m s =
      if s.size > r.avail.length then (m, r, .err (.ioError IoKind.unexpectedEof))
      else
        match r.readVolatile m s with
        | (m', r', .ok _) => (m', r', .ok ())
        | (m', r', .err e) => (m', r', .err e)
        | (m', r', .panic) => (m', r', .panic) := by
  unfold Reader.readExact
  rcases hk with hk | hk <;> rw [hk] <;> rfl

/-- C13.2 `adapter_eq_std` for `<&[u8]>::read_exact`: success iff `std` succeeds; on success
    exactly the first `s.size` bytes are moved and consumed; on failure `UnexpectedEof`, memory
    and stream unchanged. -/
theorem slice_readExact_eq_std (r : Reader) (m : Mem) (s : VSlice) (hk : r.kind = .slice)
    (hs : r.script = []) (hbm : BmInv m) (hin : InB m s) :
    match Std.readExactSlice r.data s.size with
    | .ok (moved, rest) =>
        ∃ m', r.readExact m s = (m', { r with data := rest }, .ok ()) ∧
          m'.bytes = splice m.bytes (s.addr - m.base) moved ∧
          (∀ i, i < s.addr - m.base ∨ s.addr - m.base + s.size ≤ i → m'.bytes[i]? = m.bytes[i]?) ∧
          m'.base = m.base ∧ BmInv m'
    | .err e => r.readExact m s = (m, r, .err e)
    | .panic => False := by
  have hav : r.avail = r.data := by unfold Reader.avail; rw [hk]
  rw [readExact_override r m s (.inl hk), hav]
  unfold Std.readExactSlice
  by_cases hgt : s.size > r.data.length
  · rw [if_pos hgt, if_pos hgt]
  · rw [if_neg hgt, if_neg hgt]
    obtain ⟨m', h, hb, hfr, hbase, hinv⟩ := slice_read_eq_std r m s hk hs hbm hin
    have hmin : min s.size r.data.length = s.size := by omega
    simp only [Std.readSlice, hmin] at h hb hfr
    rw [h]
    exact ⟨m', rfl, hb, hfr, hbase, hinv⟩

theorem slice_readExact_ok_iff (r : Reader) (m : Mem) (s : VSlice) (hk : r.kind = .slice)
    (hs : r.script = []) (hbm : BmInv m) (hin : InB m s) :
    ((r.readExact m s).2.2 = .ok () ↔ s.size ≤ r.data.length) ∧
    (r.data.length < s.size → r.readExact m s = (m, r, .err (.ioError IoKind.unexpectedEof))) := by
  have h := slice_readExact_eq_std r m s hk hs hbm hin
  unfold Std.readExactSlice at h
  by_cases hgt : s.size > r.data.length
  · rw [if_pos hgt] at h
    simp only [] at h
    rw [h]
    exact ⟨⟨fun h => (by cases h), fun h => (by omega)⟩, fun _ => rfl⟩
  · rw [if_neg hgt] at h
    obtain ⟨m', h, _⟩ := h
    rw [h]
    exact ⟨⟨fun _ => by omega, fun _ => rfl⟩, fun h => by omega⟩

/-! ### 3. `Cursor<T: AsRef<[u8]>>` -/

/-- C13.3 `adapter_eq_std` for `Cursor::read`: same bytes, same count, same new position as
    `std`; the inner buffer is untouched.  Includes positions past the end. -/
theorem cursor_read_eq_std (r : Reader) (m : Mem) (s : VSlice) (hk : r.kind = .cursor)
    (hs : r.script = []) (hbm : BmInv m) (hin : InB m s) :
    ∃ m', r.readVolatile m s =
        (m', { r with pos := (Std.cursorRead r.data r.pos s.size).2.2 },
          .ok (Std.cursorRead r.data r.pos s.size).1) ∧
      m'.bytes = splice m.bytes (s.addr - m.base) (Std.cursorRead r.data r.pos s.size).2.1 ∧
      (∀ i, i < s.addr - m.base ∨ s.addr - m.base + (Std.cursorRead r.data r.pos s.size).1 ≤ i →
        m'.bytes[i]? = m.bytes[i]?) ∧
      m'.base = m.base ∧ BmInv m' := by
  obtain ⟨m', h, hb, hbase, hinv⟩ := readVolatile_nil r m s hs hbm hin
  have hav : r.avail = r.data.drop (min r.pos r.data.length) := by unfold Reader.avail; rw [hk]
  have hadv : ∀ n, r.advance n = { r with pos := r.pos + n } := by
    intro n; unfold Reader.advance; rw [hk]
  rw [hav] at h hb
  rw [hadv] at h
  unfold InB at hin
  refine ⟨m', h, hb, ?_, hbase, hinv⟩
  exact frame_of_splice hb (by simp only [Std.cursorRead, Std.readSlice]; omega)
    (by simp only [Std.cursorRead, Std.readSlice]; omega)

/-- a cursor positioned at or past the end reads nothing: `Ok(0)`, nothing changes -/
theorem cursor_read_past_end (r : Reader) (m : Mem) (s : VSlice) (hk : r.kind = .cursor)
    (hs : r.script = []) (hbm : BmInv m) (hin : InB m s) (hp : r.data.length ≤ r.pos) :
    ∃ m', r.readVolatile m s = (m', r, .ok 0) ∧ m'.bytes = m.bytes ∧ m'.base = m.base := by
  obtain ⟨m', h, hb, _, hbase, _⟩ := cursor_read_eq_std r m s hk hs hbm hin
  have h0 : min s.size (r.data.drop (min r.pos r.data.length)).length = 0 := by simp; omega
  simp only [Std.cursorRead, Std.readSlice, h0] at h hb
  refine ⟨m', ?_, ?_, hbase⟩
  · rw [h]; rfl
  · rw [hb]; simp [splice_nil]

/-- C13.3 `adapter_eq_std` for `Cursor::read_exact`: success iff `std` succeeds, the position
    advances by `s.size` only on success; otherwise `UnexpectedEof` and nothing changes. -/
theorem cursor_readExact_eq_std (r : Reader) (m : Mem) (s : VSlice) (hk : r.kind = .cursor)
    (hs : r.script = []) (hbm : BmInv m) (hin : InB m s) :
    match Std.cursorReadExact r.data r.pos s.size with
    | .ok (moved, pos') =>
        ∃ m', r.readExact m s = (m', { r with pos := pos' }, .ok ()) ∧
          m'.bytes = splice m.bytes (s.addr - m.base) moved ∧
          (∀ i, i < s.addr - m.base ∨ s.addr - m.base + s.size ≤ i → m'.bytes[i]? = m.bytes[i]?) ∧
          m'.base = m.base ∧ BmInv m'
    | .err e => r.readExact m s = (m, r, .err e)
    | .panic => False := by
  have hav : r.avail = r.data.drop (min r.pos r.data.length) := by unfold Reader.avail; rw [hk]
  rw [readExact_override r m s (.inr hk), hav]
  unfold Std.cursorReadExact Std.readExactSlice
  by_cases hgt : s.size > (r.data.drop (min r.pos r.data.length)).length
  · rw [if_pos hgt, if_pos hgt]
  · rw [if_neg hgt, if_neg hgt]
    obtain ⟨m', h, hb, hfr, hbase, hinv⟩ := cursor_read_eq_std r m s hk hs hbm hin
    have hmin : min s.size (r.data.drop (min r.pos r.data.length)).length = s.size := by omega
    simp only [Std.cursorRead, Std.readSlice, hmin] at h hb hfr
    rw [h]
    exact ⟨m', rfl, hb, hfr, hbase, hinv⟩

/-- exact read of a non-empty buffer at or past the end of a cursor: `UnexpectedEof` -/
theorem cursor_readExact_past_end (r : Reader) (m : Mem) (s : VSlice) (hk : r.kind = .cursor)
    (hp : r.data.length ≤ r.pos) (hsz : 0 < s.size) :
    r.readExact m s = (m, r, .err (.ioError IoKind.unexpectedEof)) := by
  have hav : r.avail = r.data.drop (min r.pos r.data.length) := by unfold Reader.avail; rw [hk]
  rw [readExact_override r m s (.inr hk), hav, if_pos (by simp; omega)]

theorem cursor_readExact_ok_iff (r : Reader) (m : Mem) (s : VSlice) (hk : r.kind = .cursor)
    (hs : r.script = []) (hbm : BmInv m) (hin : InB m s) :
    (r.readExact m s).2.2 = .ok () ↔ s.size ≤ r.data.length - min r.pos r.data.length := by
  have h := cursor_readExact_eq_std r m s hk hs hbm hin
  unfold Std.cursorReadExact Std.readExactSlice at h
  by_cases hgt : s.size > (r.data.drop (min r.pos r.data.length)).length
  · rw [if_pos hgt] at h
    simp only [] at h
    rw [h]
    simp at hgt
    exact ⟨fun h => (by cases h), fun h => (by omega)⟩
  · rw [if_neg hgt] at h
    obtain ⟨m', h, _⟩ := h
    rw [h]
    simp at hgt
    exact ⟨fun _ => (by omega), fun _ => rfl⟩

/-! ### 4. writers with an empty script -/

theorem wnext_of_nil {w : Writer} (hs : w.script = []) : w.next = w := by
  cases w with | mk k b p sc => simp at hs; subst hs; rfl

/-- one call with an empty script hands the first `cap` bytes of the slice to the sink, where
    `cap = min(s.size, room)` (`s.size` for an unbounded sink); memory is only read -/
theorem writeVolatile_nil (w : Writer) (m : Mem) (s : VSlice) (hs : w.script = [])
    (hin : InB m s) :
    w.writeVolatile m s = (w.accept ((srcBytes m s).take (w.cap s.size)), .ok (w.cap s.size)) := by
  have hc := Writer.cap_le w s.size
  have hx : xfer (hd w.script) s.size (w.cap s.size) = some (w.cap s.size) := by
    rw [hd_of_nil hs]; simp only [xfer]; congr 1; omega
  rw [Writer.writeVolatile_ok hin hx, wnext_of_nil hs]
  unfold srcBytes
  rw [List.take_take, Nat.min_eq_left hc]

/-- storing `src.take amt` at `p` = what `<&mut [u8] as Write>::write` does to `buf[p..]` -/
theorem spliceAt_eq_std (buf src : List UInt8) (p : Nat) :
    spliceAt buf p (src.take (min src.length (buf.length - p))) =
        buf.take p ++ (Std.writeMutSlice (buf.drop p) src).2 ∧
      (Std.writeMutSlice (buf.drop p) src).1 = min src.length (buf.length - p) ∧
      (src.take (min src.length (buf.length - p))).length = min src.length (buf.length - p) := by
  have hl : (src.take (min src.length (buf.length - p))).length = min src.length (buf.length - p) := by
    simp
  refine ⟨?_, by simp [Std.writeMutSlice], hl⟩
  unfold spliceAt Std.writeMutSlice
  simp only [hl, List.length_drop, List.drop_drop, List.append_assoc]

/-- C13.4 `adapter_eq_std` for `&mut [u8]`: `write_volatile` stores the same bytes at the front
    of the remaining slice, returns the same count and advances the slice like `Write::write`
    of the ordinary buffer `srcBytes m s`. -/
theorem mutSlice_write_eq_std (w : Writer) (m : Mem) (s : VSlice) (hk : w.kind = .mutSlice)
    (hs : w.script = []) (hin : InB m s) :
    w.writeVolatile m s =
      ({ w with buf := w.buf.take w.pos ++ (Std.writeMutSlice (w.buf.drop w.pos) (srcBytes m s)).2,
                pos := w.pos + (Std.writeMutSlice (w.buf.drop w.pos) (srcBytes m s)).1 },
        .ok (Std.writeMutSlice (w.buf.drop w.pos) (srcBytes m s)).1) := by
  obtain ⟨h1, h2, h3⟩ := spliceAt_eq_std w.buf (srcBytes m s) w.pos
  have hcap : w.cap s.size = min (srcBytes m s).length (w.buf.length - w.pos) := by
    rw [srcBytes_length hin]; unfold Writer.cap Writer.room; rw [hk]
  rw [writeVolatile_nil w m s hs hin, hcap, h2, ← h1]
  unfold Writer.accept
  rw [hk]
  simp only [h3]

/-- the count is `min(s.size, room)` and the bytes handed over are the first `n` of the slice -/
theorem mutSlice_write_count (w : Writer) (m : Mem) (s : VSlice) (hin : InB m s) :
    (Std.writeMutSlice (w.buf.drop w.pos) (srcBytes m s)).1 = min s.size (w.buf.length - w.pos) ∧
    (Std.writeMutSlice (w.buf.drop w.pos) (srcBytes m s)).2 =
      (m.bytes.drop (s.addr - m.base)).take (min s.size (w.buf.length - w.pos)) ++
        w.buf.drop (w.pos + min s.size (w.buf.length - w.pos)) := by
  have hl := srcBytes_length hin
  constructor
  · simp only [Std.writeMutSlice, hl, List.length_drop]
  · simp only [Std.writeMutSlice, hl, List.length_drop, List.drop_drop]
    unfold srcBytes
    rw [List.take_take, Nat.min_eq_left (by omega)]

/-- the overriding `write_all_volatile` of `&mut [u8]` -/
theorem writeAll_override (w : Writer) (m : Mem) (s : VSlice) (hk : w.kind = .mutSlice) :
    w.writeAll m s =
      match w.writeVolatile m s with
      | (w', .ok n) => if n = s.size then (w', .ok ()) else (w', .err (.ioError IoKind.writeZero))
      | (w', .err e) => (w', .err e)
      | (w', .panic) => (w', .panic) := by
  unfold Writer.writeAll
  rw [hk]; rfl

/-- every other sink uses the default loop -/
theorem writeAll_default (w : Writer) (m : Mem) (s : VSlice) (hk : w.kind ≠ .mutSlice) :
    w.writeAll m s =
      match s.offset 0 with
      | .ok p => w.writeAllLoop (s.size + 1) m p
      | .err e => (w, .err e)
      | .panic => (w, .panic) := by
  unfold Writer.writeAll
  cases hkk : w.kind <;> first | rfl | exact absurd hkk hk

/-- C13.4 `adapter_eq_std` for `<&mut [u8]>::write_all`: `Ok` iff everything fits, else
    `WriteZero` after the prefix that fits was written — exactly `std`. -/
theorem mutSlice_writeAll_eq_std (w : Writer) (m : Mem) (s : VSlice) (hk : w.kind = .mutSlice)
    (hs : w.script = []) (hin : InB m s) :
    w.writeAll m s =
      ({ w with buf := w.buf.take w.pos ++ (Std.writeAllMutSlice (w.buf.drop w.pos) (srcBytes m s)).1,
                pos := w.pos + min s.size (w.buf.length - w.pos) },
        (Std.writeAllMutSlice (w.buf.drop w.pos) (srcBytes m s)).2) := by
  have h := mutSlice_write_eq_std w m s hk hs hin
  have hc := (mutSlice_write_count w m s hin).1
  have hl := srcBytes_length hin
  rw [writeAll_override w m s hk]
  simp only [h, Std.writeAllMutSlice, hl, hc]
  by_cases hfit : min s.size (w.buf.length - w.pos) = s.size
  · rw [if_pos hfit, if_pos hfit]
  · rw [if_neg hfit, if_neg hfit]

theorem mutSlice_writeAll_ok_iff (w : Writer) (m : Mem) (s : VSlice) (hk : w.kind = .mutSlice)
    (hs : w.script = []) (hin : InB m s) :
    ((w.writeAll m s).2 = .ok () ↔ s.size ≤ w.buf.length - w.pos) ∧
    (w.buf.length - w.pos < s.size → (w.writeAll m s).2 = .err (.ioError IoKind.writeZero)) := by
  rw [mutSlice_writeAll_eq_std w m s hk hs hin]
  have hc := (mutSlice_write_count w m s hin).1
  have hl := srcBytes_length hin
  simp only [Std.writeAllMutSlice, hl, hc]
  by_cases hfit : min s.size (w.buf.length - w.pos) = s.size
  · rw [if_pos hfit]; exact ⟨⟨fun _ => (by omega), fun _ => rfl⟩, fun h => (by omega)⟩
  · rw [if_neg hfit]; exact ⟨⟨fun h => (by cases h), fun h => (by omega)⟩, fun _ => rfl⟩

/-- C13.4 `adapter_eq_std` for `Vec<u8>`: all `s.size` bytes are appended, `Ok(s.size)` -/
theorem vec_write_eq_std (w : Writer) (m : Mem) (s : VSlice) (hk : w.kind = .vec)
    (hs : w.script = []) (hin : InB m s) :
    w.writeVolatile m s =
      ({ w with buf := (Std.writeVec w.buf (srcBytes m s)).1 },
        .ok (Std.writeVec w.buf (srcBytes m s)).2) ∧
    (Std.writeVec w.buf (srcBytes m s)).2 = s.size := by
  have hroom : w.room = none := (Writer.room_none_iff w).2 (.inl hk)
  have hl := srcBytes_length hin
  rw [writeVolatile_nil w m s hs hin, Writer.cap_of_room_none hroom,
    Writer.accept_of_room_none hroom]
  simp only [Std.writeVec, hl]
  rw [← hl, List.take_length]
  exact ⟨rfl, trivial⟩

/-- a bounded sink that accepted exactly its room has no room left -/
theorem room_accept_full {w : Writer} {rm : Nat} (hr : w.room = some rm) (d : List UInt8)
    (hd : d.length = rm) : (w.accept d).room = some 0 := by
  cases w with
  | mk k b p sc =>
    cases k <;> simp only [Writer.room, Option.some.injEq, reduceCtorEq] at hr <;>
      simp only [Writer.accept, Writer.room, Option.some.injEq, spliceAt_eq_splice]
    · -- mutSlice
      by_cases hp : p ≤ b.length
      · rw [splice_length _ _ _ (by omega)]; omega
      · have : d = [] := List.eq_nil_of_length_eq_zero (by omega)
        subst this; rw [splice_nil]; simp; omega
    · -- cursor
      by_cases hp : p ≤ b.length
      · rw [Nat.min_eq_left hp, splice_length _ _ _ (by omega)]; omega
      · have : d = [] := List.eq_nil_of_length_eq_zero (by omega)
        subst this; rw [splice_nil]; simp; omega

/-- The default `write_all_volatile` loop with an empty script: one call takes `cap =
    min(p.size, room)` bytes; `Ok` iff that is everything, else the next call returns `Ok(0)`
    and the loop reports `WriteZero` — after the prefix that fits was written. -/
theorem writeAllLoop_nil (fuel : Nat) (w : Writer) (m : Mem) (p : VSlice) (hs : w.script = [])
    (hin : InB m p) (hU : m.base + m.bytes.length < U) (hf : p.size < fuel) :
    w.writeAllLoop fuel m p =
      (w.accept ((srcBytes m p).take (w.cap p.size)),
        if w.cap p.size = p.size then .ok () else .err (.ioError IoKind.writeZero)) := by
  have hcl := Writer.cap_le w p.size
  cases fuel with
  | zero => omega
  | succ fuel =>
    unfold Writer.writeAllLoop
    by_cases hz : p.size = 0
    · have hc0 : w.cap p.size = 0 := by omega
      rw [if_pos hz, hc0, if_pos hz.symm]
      simp [Writer.accept_nil]
    · rw [if_neg hz, Writer.writeRetry_nil m p hs, writeVolatile_nil w m p hs hin]
      obtain ⟨c, hc⟩ : ∃ c, w.cap p.size = c := ⟨_, rfl⟩
      rw [hc] at hcl ⊢
      cases c with
      | zero => simp only []; rw [if_neg (by omega)]; rfl
      | succ c =>
        have hin' := hin
        unfold InB at hin'
        obtain ⟨p', hoff⟩ : ∃ p', p.offset (c + 1) = .ok p' := by
          rw [offset_eq, if_pos (by omega), if_pos hcl]; exact ⟨_, rfl⟩
        obtain ⟨_, _, hpa, hps, _⟩ := offset_ok hoff
        simp only [hoff]
        have hs1 : (w.accept ((srcBytes m p).take (c + 1))).script = [] := by simp [hs]
        have hin1 : InB m p' := by unfold InB; omega
        cases fuel with
        | zero => omega
        | succ fuel =>
          unfold Writer.writeAllLoop
          by_cases hfull : c + 1 = p.size
          · rw [if_pos (by omega), if_pos hfull]
          · rw [if_neg (by omega), if_neg hfull, Writer.writeRetry_nil m p' hs1,
              writeVolatile_nil _ m p' hs1 hin1]
            -- the sink was bounded and is now full
            have hl : ((srcBytes m p).take (c + 1)).length = c + 1 := by
              rw [List.length_take_of_le]; rw [srcBytes_length hin]; exact hcl
            have hroom : ∃ rm, w.room = some rm ∧ rm = c + 1 := by
              unfold Writer.cap at hc
              cases hr : w.room with
              | none => rw [hr] at hc; simp only [] at hc; omega
              | some rm => rw [hr] at hc; simp only [] at hc; exact ⟨rm, rfl, by omega⟩
            obtain ⟨rm, hr, hrm⟩ := hroom
            have hr1 := room_accept_full hr ((srcBytes m p).take (c + 1)) (by omega)
            have hc1 : (w.accept ((srcBytes m p).take (c + 1))).cap p'.size = 0 := by
              unfold Writer.cap; rw [hr1]; simp
            rw [hc1]
            simp [Writer.accept_nil]
            rfl

/-- C13.4: `write_all_volatile` into a `Vec<u8>` (default loop) always succeeds and appends all
    `s.size` bytes — `Write::write_all` for `Vec`. -/
theorem vec_writeAll (w : Writer) (m : Mem) (s : VSlice) (hk : w.kind = .vec)
    (hs : w.script = []) (hin : InB m s) (hU : m.base + m.bytes.length < U) :
    w.writeAll m s = ({ w with buf := (Std.writeVec w.buf (srcBytes m s)).1 }, .ok ()) := by
  have hroom : w.room = none := (Writer.room_none_iff w).2 (.inl hk)
  have hl := srcBytes_length hin
  have hin' := hin
  unfold InB at hin'
  rw [writeAll_default w m s (by rw [hk]; simp), offset_eq, if_pos (by omega),
    if_pos (Nat.zero_le _)]
  simp only []
  rw [writeAllLoop_nil _ w m _ hs (by unfold InB; simp only []; omega) hU
    (by simp only []; omega)]
  simp only [Writer.cap_of_room_none hroom, Nat.sub_zero, Nat.add_zero, if_true]
  rw [Writer.accept_of_room_none hroom]
  have : srcBytes m { addr := s.addr, size := s.size, bmBase := sliceAt s.bmBase 0 } = srcBytes m s := rfl
  rw [this, ← hl, List.take_length]
  rfl

/-- C13.4 `adapter_eq_std` for `Cursor<&mut [u8]>::write` -/
theorem cursor_write_eq_std (w : Writer) (m : Mem) (s : VSlice) (hk : w.kind = .cursor)
    (hs : w.script = []) (hin : InB m s) :
    w.writeVolatile m s =
      ({ w with buf := (Std.cursorWrite w.buf w.pos (srcBytes m s)).2.1,
                pos := (Std.cursorWrite w.buf w.pos (srcBytes m s)).2.2 },
        .ok (Std.cursorWrite w.buf w.pos (srcBytes m s)).1) := by
  obtain ⟨h1, h2, h3⟩ := spliceAt_eq_std w.buf (srcBytes m s) (min w.pos w.buf.length)
  have hcap : w.cap s.size =
      min (srcBytes m s).length (w.buf.length - min w.pos w.buf.length) := by
    rw [srcBytes_length hin]; unfold Writer.cap Writer.room; rw [hk]
  rw [writeVolatile_nil w m s hs hin, hcap]
  unfold Writer.accept Std.cursorWrite
  rw [hk]
  simp only [h3, h1, h2]

/-- C13.4: `write_all_volatile` into a `Cursor<&mut [u8]>` (default loop): `Ok` iff there is
    enough room after the position, else `WriteZero` after the prefix that fits was written;
    the buffer and position are those of `std`'s `Cursor::write` of the whole slice. -/
theorem cursor_writeAll (w : Writer) (m : Mem) (s : VSlice) (hk : w.kind = .cursor)
    (hs : w.script = []) (hin : InB m s) (hU : m.base + m.bytes.length < U) :
    w.writeAll m s =
      ({ w with buf := (Std.cursorWrite w.buf w.pos (srcBytes m s)).2.1,
                pos := (Std.cursorWrite w.buf w.pos (srcBytes m s)).2.2 },
        if s.size ≤ w.buf.length - min w.pos w.buf.length then .ok ()
        else .err (.ioError IoKind.writeZero)) := by
  have hl := srcBytes_length hin
  have hin' := hin
  unfold InB at hin'
  have hw := cursor_write_eq_std w m s hk hs hin
  rw [writeVolatile_nil w m s hs hin] at hw
  have hw1 := congrArg (·.1) hw
  simp only [] at hw1
  rw [writeAll_default w m s (by rw [hk]; simp), offset_eq, if_pos (by omega),
    if_pos (Nat.zero_le _)]
  simp only []
  rw [writeAllLoop_nil _ w m _ hs (by unfold InB; simp only []; omega) hU
    (by simp only []; omega)]
  have : ∀ b, srcBytes m { addr := s.addr + 0, size := s.size, bmBase := b } = srcBytes m s :=
    fun _ => rfl
  simp only [Nat.sub_zero, this]
  rw [hw1]
  congr 1
  have hcap : w.cap s.size = min s.size (w.buf.length - min w.pos w.buf.length) := by
    unfold Writer.cap Writer.room; rw [hk]
  by_cases hfit : s.size ≤ w.buf.length - min w.pos w.buf.length
  · rw [if_pos hfit, if_pos (by omega)]
  · rw [if_neg hfit, if_neg (by omega)]

/-! ### 5. sequences of calls -/

namespace Std
/-- consecutive `Read::read` calls on one `&[u8]` into buffers of the given lengths:
    `(concatenation of the bytes delivered, remaining slice)` -/
def readMany (data : List UInt8) : List Nat → List UInt8 × List UInt8
  | [] => ([], data)
  | n :: ns =>
    let (_, moved, rest) := readSlice data n
    let (mv, fin) := readMany rest ns
    (moved ++ mv, fin)

/-- consecutive `Write::write` calls on one `Vec<u8>`: `(vector afterwards, total count)` -/
def writeVecMany (v : List UInt8) : List (List UInt8) → List UInt8 × Nat
  | [] => (v, 0)
  | src :: srcs =>
    let (v', n) := writeVec v src
    let (v'', t) := writeVecMany v' srcs
    (v'', n + t)

/-- std side: what a sequence of reads delivers is a prefix of the stream, in order, and what
    remains is the rest — nothing lost, nothing duplicated -/
theorem readMany_prefix (data : List UInt8) (ns : List Nat) :
    (readMany data ns).1 = data.take (min ns.sum data.length) ∧
    (readMany data ns).2 = data.drop (min ns.sum data.length) := by
  induction ns generalizing data with
  | nil => simp [readMany]
  | cons n ns ih =>
    obtain ⟨h1, h2⟩ := ih (data.drop (min n data.length))
    simp only [readMany, readSlice, h1, h2, List.sum_cons, List.length_drop, List.drop_drop]
    have e : min n data.length + min ns.sum (data.length - min n data.length) =
        min (n + ns.sum) data.length := by omega
    rw [← List.take_add, e]
    refine ⟨rfl, ?_⟩
    congr 1

theorem writeVecMany_eq (v : List UInt8) (srcs : List (List UInt8)) :
    writeVecMany v srcs = (v ++ srcs.flatten, (srcs.map List.length).sum) := by
  induction srcs generalizing v with
  | nil => simp [writeVecMany]
  | cons s ss ih => simp [writeVecMany, writeVec, ih]
end Std

/-- consecutive `read_volatile` calls of one reader into the given slices.  The bytes a call
    stored are read back right after the call (the slices may overlap) and concatenated. -/
def readSeq (r : Reader) (m : Mem) : List VSlice → Mem × Reader × List UInt8
  | [] => (m, r, [])
  | s :: ss =>
    match r.readVolatile m s with
    | (m', r', .ok n) =>
      let out := readSeq r' m' ss
      (out.1, out.2.1, (m'.bytes.drop (s.addr - m.base)).take n ++ out.2.2)
    | (m', r', _) => (m', r', [])

/-- consecutive `write_volatile` calls of one writer from the given slices: total count, or the
    first failure -/
def writeSeq (w : Writer) (m : Mem) : List VSlice → Writer × Res Nat
  | [] => (w, .ok 0)
  | s :: ss =>
    match w.writeVolatile m s with
    | (w', .ok n) =>
      match writeSeq w' m ss with
      | (w'', .ok t) => (w'', .ok (n + t))
      | out => out
    | out => out

/-- C13.5 `sequence_eq_std` (readers): consecutive `read_volatile` calls on one `&[u8]` deliver
    exactly what consecutive `Read::read` calls into ordinary buffers of the same lengths
    deliver, and leave the same remaining stream. -/
theorem sequence_eq_std (r : Reader) (m : Mem) (ss : List VSlice) (hk : r.kind = .slice)
    (hs : r.script = []) (hbm : BmInv m) (hin : ∀ s ∈ ss, InB m s) :
    (readSeq r m ss).2.2 = (Std.readMany r.data (ss.map VSlice.size)).1 ∧
    (readSeq r m ss).2.1 = { r with data := (Std.readMany r.data (ss.map VSlice.size)).2 } ∧
    (readSeq r m ss).1.base = m.base ∧
    (readSeq r m ss).1.bytes.length = m.bytes.length := by
  induction ss generalizing r m with
  | nil => exact ⟨rfl, rfl, rfl, rfl⟩
  | cons s ss ih =>
    have hins : InB m s := hin s (by simp)
    obtain ⟨m', h, hb, _, hbase, hinv⟩ := slice_read_eq_std r m s hk hs hbm hins
    have hins' := hins
    unfold InB at hins'
    have hml : (r.data.take (min s.size r.data.length)).length = min s.size r.data.length := by
      simp
    simp only [Std.readSlice] at h hb
    have hlen : m'.bytes.length = m.bytes.length := by
      rw [hb, splice_length _ _ _ (by omega)]
    have hread : (m'.bytes.drop (s.addr - m.base)).take (min s.size r.data.length) =
        r.data.take (min s.size r.data.length) := by
      have := splice_read m.bytes (s.addr - m.base) (r.data.take (min s.size r.data.length))
        (by omega)
      rw [hml] at this
      rw [hb]; exact this
    obtain ⟨i1, i2, i3, i4⟩ := ih { r with data := r.data.drop (min s.size r.data.length) } m'
      hk hs hinv (by
        intro s' hs'
        have := hin s' (by simp [hs'])
        unfold InB at this ⊢
        rw [hbase, hlen]; exact this)
    simp only [readSeq, h, List.map_cons, Std.readMany, Std.readSlice, hread]
    simp only [] at i1 i2
    exact ⟨by rw [i1], by rw [i2], by rw [i3, hbase], by rw [i4, hlen]⟩

/-- C13.5, stated directly: the bytes delivered are a prefix of the original data, in order, and
    the remaining data is the rest. -/
theorem sequence_prefix (r : Reader) (m : Mem) (ss : List VSlice) (hk : r.kind = .slice)
    (hs : r.script = []) (hbm : BmInv m) (hin : ∀ s ∈ ss, InB m s) :
    ∃ k, k = min (ss.map VSlice.size).sum r.data.length ∧
      (readSeq r m ss).2.2 = r.data.take k ∧ (readSeq r m ss).2.1.data = r.data.drop k := by
  obtain ⟨h1, h2, _, _⟩ := sequence_eq_std r m ss hk hs hbm hin
  obtain ⟨p1, p2⟩ := Std.readMany_prefix r.data (ss.map VSlice.size)
  exact ⟨_, rfl, by rw [h1, p1], by rw [h2]; exact p2⟩

/-- C13.5 `sequence_eq_std` (writers): consecutive `write_volatile` calls into one `Vec<u8>`
    append exactly what consecutive `Write::write` calls of the ordinary buffers append. -/
theorem sequence_eq_std_vec (w : Writer) (m : Mem) (ss : List VSlice) (hk : w.kind = .vec)
    (hs : w.script = []) (hin : ∀ s ∈ ss, InB m s) :
    writeSeq w m ss =
      ({ w with buf := (Std.writeVecMany w.buf (ss.map (srcBytes m))).1 },
        .ok (Std.writeVecMany w.buf (ss.map (srcBytes m))).2) := by
  induction ss generalizing w with
  | nil => rfl
  | cons s ss ih =>
    have hins : InB m s := hin s (by simp)
    obtain ⟨h, _⟩ := vec_write_eq_std w m s hk hs hins
    have := ih { w with buf := (Std.writeVec w.buf (srcBytes m s)).1 } hk hs
      (fun s' hs' => hin s' (by simp [hs']))
    simp only [writeSeq, h, this, List.map_cons, Std.writeVecMany]

/-- … i.e. the sink grows by the concatenation of the slices' bytes, in order -/
theorem sequence_vec_appends (w : Writer) (m : Mem) (ss : List VSlice) (hk : w.kind = .vec)
    (hs : w.script = []) (hin : ∀ s ∈ ss, InB m s) :
    (writeSeq w m ss).1.buf = w.buf ++ (ss.map (srcBytes m)).flatten ∧
    (writeSeq w m ss).2 = .ok (ss.map VSlice.size).sum := by
  rw [sequence_eq_std_vec w m ss hk hs hin, Std.writeVecMany_eq]
  refine ⟨rfl, ?_⟩
  simp only [List.map_map]
  congr 2
  apply List.map_congr_left
  intro s hs'
  exact srcBytes_length (hin s hs')

/-! ### 6. never beyond the buffer -/

theorem rvGo_frame (r0 : Reader) (m : Mem) (s : VSlice) (limit : Nat) :
    (Reader.rvGo r0 m s limit).1.base = m.base ∧
    (Reader.rvGo r0 m s limit).1.bytes.length = m.bytes.length ∧
    ∀ i, i < s.addr - m.base ∨ s.addr - m.base + s.size ≤ i →
      (Reader.rvGo r0 m s limit).1.bytes[i]? = m.bytes[i]? := by
  unfold Reader.rvGo
  rcases copyToVolatileSlice_cases m s r0.avail (min (min s.size r0.avail.length) limit) with
    ⟨m', h, hb, hbase, hbnd⟩ | h
  · rw [h]
    simp only []
    have hl : (r0.avail.take (min (min s.size r0.avail.length) limit)).length =
        min (min s.size r0.avail.length) limit := List.length_take_of_le (by omega)
    rcases hbnd with h0 | hbnd
    · have : r0.avail.take (min (min s.size r0.avail.length) limit) = [] :=
        List.eq_nil_of_length_eq_zero h0
      rw [this, splice_nil] at hb
      rw [hb]; exact ⟨hbase, rfl, fun _ _ => rfl⟩
    · rw [hl] at hbnd
      refine ⟨hbase, ?_, ?_⟩
      · rw [hb, splice_length _ _ _ (by omega)]
      · intro i hi
        rw [hb]
        exact splice_frame _ _ _ (by omega) i (by omega)
  · rw [h]; exact ⟨rfl, rfl, fun _ _ => rfl⟩

theorem rvFail_frame (r0 : Reader) (m : Mem) (s : VSlice) (k : Nat) :
    (Reader.rvFail r0 m s k).1.base = m.base ∧ (Reader.rvFail r0 m s k).1.bytes = m.bytes := by
  unfold Reader.rvFail
  cases r0.kind
  case fd =>
    simp only []
    rcases mark_cases m s.bmBase 0 s.size with ⟨m', h, hb, hbase⟩ | h
    · rw [h]; exact ⟨hbase, hb⟩
    · rw [h]; exact ⟨rfl, rfl⟩
  all_goals exact ⟨rfl, rfl⟩

/-- C13.6 `never_beyond_buffer`: for every reader kind (raw descriptors included), every script
    and every container — no hypothesis at all — one `read_volatile` call changes no byte of
    the container outside `[o, o + s.size)`, and neither its base nor its length. -/
theorem never_beyond_buffer (r : Reader) (m : Mem) (s : VSlice) :
    (r.readVolatile m s).1.base = m.base ∧
    (r.readVolatile m s).1.bytes.length = m.bytes.length ∧
    ∀ i, i < s.addr - m.base ∨ s.addr - m.base + s.size ≤ i →
      (r.readVolatile m s).1.bytes[i]? = m.bytes[i]? := by
  rw [Reader.readVolatile_eq]
  cases hd r.script with
  | full => exact rvGo_frame r.next m s s.size
  | short k => exact rvGo_frame r.next m s k
  | zero => exact ⟨rfl, rfl, fun _ _ => rfl⟩
  | eintr =>
    obtain ⟨h1, h2⟩ := rvFail_frame r.next m s IoKind.interrupted
    exact ⟨h1, by rw [h2], fun _ _ => by rw [h2]⟩
  | fail =>
    obtain ⟨h1, h2⟩ := rvFail_frame r.next m s IoKind.other
    exact ⟨h1, by rw [h2], fun _ _ => by rw [h2]⟩

/-! ### non-vacuity -/

def exMem : Mem := { base := 0x2000, bytes := [10, 11, 12, 13, 14, 15, 16, 17], bm := none }
def exWin : VSlice := { addr := 0x2002, size := 4, bmBase := 2 }

theorem exMem_ok : BmInv exMem ∧ InB exMem exWin ∧ exMem.base + exMem.bytes.length < U :=
  ⟨BmInv_of_none rfl, by unfold InB; decide, by decide⟩

/-- `&[u8]` of 3 bytes into a 4-byte slice: 3 bytes moved, stream empty -/
example : ({ kind := .slice, data := [1, 2, 3], pos := 0, script := [] } : Reader).readVolatile
    exMem exWin =
    ({ exMem with bytes := [10, 11, 1, 2, 3, 15, 16, 17] },
     { kind := .slice, data := [], pos := 0, script := [] }, .ok 3) := by decide +kernel

/-- `read_exact` of 4 bytes from a 3-byte `&[u8]`: `UnexpectedEof`, nothing changes -/
example : ({ kind := .slice, data := [1, 2, 3], pos := 0, script := [] } : Reader).readExact
    exMem exWin =
    (exMem, { kind := .slice, data := [1, 2, 3], pos := 0, script := [] },
     .err (.ioError IoKind.unexpectedEof)) := by decide +kernel

/-- `Cursor` at position 9 of a 3-byte buffer: `Ok(0)` -/
example : ({ kind := .cursor, data := [1, 2, 3], pos := 9, script := [] } : Reader).readVolatile
    exMem exWin =
    (exMem, { kind := .cursor, data := [1, 2, 3], pos := 9, script := [] }, .ok 0) := by
  decide +kernel

/-- `write_all` of a 4-byte slice into a `&mut [u8]` with 3 bytes left: the prefix is written,
    `WriteZero` -/
example : ({ kind := .mutSlice, buf := [0, 0, 0, 0, 0], pos := 2, script := [] } : Writer).writeAll
    exMem exWin =
    ({ kind := .mutSlice, buf := [0, 0, 12, 13, 14], pos := 5, script := [] },
     .err (.ioError IoKind.writeZero)) := by decide +kernel

/-- `write_all` into a `Cursor<&mut [u8]>` (default loop) without enough room -/
example : ({ kind := .cursor, buf := [0, 0, 0, 0, 0], pos := 3, script := [] } : Writer).writeAll
    exMem exWin =
    ({ kind := .cursor, buf := [0, 0, 0, 12, 13], pos := 5, script := [] },
     .err (.ioError IoKind.writeZero)) := by decide +kernel

/-- `write_all` into a `Vec<u8>` -/
example : ({ kind := .vec, buf := [7], pos := 0, script := [] } : Writer).writeAll exMem exWin =
    ({ kind := .vec, buf := [7, 12, 13, 14, 15], pos := 0, script := [] }, .ok ()) := by
  decide +kernel

#print axioms slice_read_eq_std
#print axioms slice_readExact_eq_std
#print axioms slice_readExact_ok_iff
#print axioms cursor_read_eq_std
#print axioms cursor_read_past_end
#print axioms cursor_readExact_eq_std
#print axioms cursor_readExact_past_end
#print axioms cursor_readExact_ok_iff
#print axioms mutSlice_write_eq_std
#print axioms mutSlice_write_count
#print axioms mutSlice_writeAll_eq_std
#print axioms mutSlice_writeAll_ok_iff
#print axioms vec_write_eq_std
#print axioms vec_writeAll
#print axioms cursor_write_eq_std
#print axioms cursor_writeAll
#print axioms writeAllLoop_nil
#print axioms Std.readMany_prefix
#print axioms Std.writeVecMany_eq
#print axioms sequence_eq_std
#print axioms sequence_prefix
#print axioms sequence_eq_std_vec
#print axioms sequence_vec_appends
#print axioms never_beyond_buffer
#print axioms exMem_ok

end VmMem.C13
