/-
  VmMem.Props.C15 — region construction accepts exactly the safe requests and builds what
  was asked.

  `checkFileOffset`, `build`/`buildRaw`, `guestRegionNew`: acceptance ↔ the arithmetic
  conditions of the source, every error variant ↔ its cause in the source's precedence,
  a successful build reports exactly the request, a failed build maps nothing.
  Xen: the accepted flag words are exactly {0x0, 0x1, 0x2, 0xa}, for all 2^32 words
  (structural proof through "only bits 0,1,3 may be set"); `xenValidate` accepts exactly
  the requests the source accepts.
-/
import VmMem.Model.Construct
import VmMem.Lemmas.ConstructLemmas
namespace VmMem.C15
open VmMem VmMem.Construct

/-! ### 1. `check_file_offset` -/

theorem checkFileOffset_eq (f : FileReq) (size : Nat) :
    checkFileOffset f size =
      if f.start + size < U then (if f.fileLen < f.start + size then .error .mappingPastEof else .ok ())
      else .error .invalidOffsetLength := by
  unfold checkFileOffset checkedAdd
  by_cases h : f.start + size < U <;> simp [h]

/-- `check_file_offset` has exactly three outcomes, each with its cause -/
theorem checkFileOffset_trich (f : FileReq) (size : Nat) :
    (checkFileOffset f size = .ok () ∧ f.start + size < U ∧ f.start + size ≤ f.fileLen) ∨
    (checkFileOffset f size = .error .invalidOffsetLength ∧ U ≤ f.start + size) ∨
    (checkFileOffset f size = .error .mappingPastEof ∧ f.start + size < U ∧ f.fileLen < f.start + size) := by
  rw [checkFileOffset_eq]
  by_cases h1 : f.start + size < U <;> by_cases h2 : f.fileLen < f.start + size <;> simp [h1, h2] <;> omega

theorem checkFileOffset_ok_iff (f : FileReq) (size : Nat) :
    checkFileOffset f size = .ok () ↔ f.start + size < U ∧ f.start + size ≤ f.fileLen := by
  rcases checkFileOffset_trich f size with ⟨hc, h⟩ | ⟨hc, h⟩ | ⟨hc, h⟩ <;> simp [hc] <;> omega

theorem checkFileOffset_invalidOffsetLength_iff (f : FileReq) (size : Nat) :
    checkFileOffset f size = .error .invalidOffsetLength ↔ U ≤ f.start + size := by
  rcases checkFileOffset_trich f size with ⟨hc, h⟩ | ⟨hc, h⟩ | ⟨hc, h⟩ <;> simp [hc] <;> omega

theorem checkFileOffset_mappingPastEof_iff (f : FileReq) (size : Nat) :
    checkFileOffset f size = .error .mappingPastEof ↔ f.start + size < U ∧ f.fileLen < f.start + size := by
  rcases checkFileOffset_trich f size with ⟨hc, h⟩ | ⟨hc, h⟩ | ⟨hc, h⟩ <;> simp [hc] <;> omega

theorem checkFileOffset_cases (f : FileReq) (size : Nat) :
    checkFileOffset f size = .ok () ∨ checkFileOffset f size = .error .invalidOffsetLength ∨
    checkFileOffset f size = .error .mappingPastEof := by
  rcases checkFileOffset_trich f size with ⟨hc, _⟩ | ⟨hc, _⟩ | ⟨hc, _⟩ <;> simp [hc]

/-! ### 2. `MmapRegionBuilder::build` -/

/-- exhaustive case analysis of a `build` call: raw / MAP_FIXED / file check / kernel reply -/
syntax "build_split " ident ident ident : tactic
macro_rules
  | `(tactic| build_split $r $page $kernel) => `(tactic| (
      rcases $r:ident with ⟨size, prot, flags, file, rawPtr⟩
      cases rawPtr with
      | some p => by_cases h : p % $page = 0 <;> simp_all [build, buildRaw]
      | none =>
        by_cases hfix : flags &&& MAP_FIXED = 0
        · cases file with
          | none => cases $kernel:ident <;> simp_all [build]
          | some f =>
            rcases checkFileOffset_trich f size with ⟨hc, h1, h2⟩ | ⟨hc, h1⟩ | ⟨hc, h1, h2⟩ <;>
              cases $kernel:ident <;> simp_all [build] <;> try omega
        · simp_all [build]))

theorem build_ok_iff (r : BuildReq) (page : Nat) (kernel : Option Nat) :
    (∃ b, (build r page kernel).1 = .ok b) ↔
    (match r.rawPtr with
     | some p => p % page = 0
     | none => r.flags &&& MAP_FIXED = 0 ∧
         (∀ f, r.file = some f → f.start + r.size < U ∧ f.start + r.size ≤ f.fileLen) ∧
         kernel.isSome) := by
  build_split r page kernel

theorem build_invalidPointer_iff (r : BuildReq) (page : Nat) (kernel : Option Nat) :
    (build r page kernel).1 = .error .invalidPointer ↔ ∃ p, r.rawPtr = some p ∧ p % page ≠ 0 := by
  build_split r page kernel

theorem build_mapFixed_iff (r : BuildReq) (page : Nat) (kernel : Option Nat) :
    (build r page kernel).1 = .error .mapFixed ↔ r.rawPtr = none ∧ r.flags &&& MAP_FIXED ≠ 0 := by
  build_split r page kernel

theorem build_invalidOffsetLength_iff (r : BuildReq) (page : Nat) (kernel : Option Nat) :
    (build r page kernel).1 = .error .invalidOffsetLength ↔
    r.rawPtr = none ∧ r.flags &&& MAP_FIXED = 0 ∧ ∃ f, r.file = some f ∧ U ≤ f.start + r.size := by
  build_split r page kernel

theorem build_mappingPastEof_iff (r : BuildReq) (page : Nat) (kernel : Option Nat) :
    (build r page kernel).1 = .error .mappingPastEof ↔
    r.rawPtr = none ∧ r.flags &&& MAP_FIXED = 0 ∧
      ∃ f, r.file = some f ∧ f.start + r.size < U ∧ f.fileLen < f.start + r.size := by
  build_split r page kernel

theorem build_mmapFailed_iff (r : BuildReq) (page : Nat) (kernel : Option Nat) :
    (build r page kernel).1 = .error .mmapFailed ↔
    r.rawPtr = none ∧ r.flags &&& MAP_FIXED = 0 ∧
      (∀ f, r.file = some f → f.start + r.size < U ∧ f.start + r.size ≤ f.fileLen) ∧ kernel = none := by
  build_split r page kernel

/-- `build` can fail only with one of these five variants -/
theorem build_error_cases (r : BuildReq) (page : Nat) (kernel : Option Nat) (e : BErr)
    (h : (build r page kernel).1 = .error e) :
    e = .invalidPointer ∨ e = .mapFixed ∨ e = .invalidOffsetLength ∨ e = .mappingPastEof ∨ e = .mmapFailed := by
  build_split r page kernel

/-! ### 3. a successful build reports exactly the request -/

theorem built_reports_request (r : BuildReq) (page : Nat) (kernel : Option Nat) (b : Built)
    (h : (build r page kernel).1 = .ok b) :
    b.size = r.size ∧ b.prot = r.prot ∧ b.flags = r.flags ∧ b.fileStart = r.file.map (·.start) ∧
    b.owned = r.rawPtr.isNone ∧
    (r.rawPtr = none → some b.addr = kernel) ∧ (∀ p, r.rawPtr = some p → b.addr = p) := by
  rcases r with ⟨size, prot, flags, file, rawPtr⟩
  cases rawPtr with
  | some p => by_cases hp : p % page = 0 <;> simp_all [build, buildRaw] <;> (subst h; simp)
  | none =>
    by_cases hfix : flags &&& MAP_FIXED = 0
    · cases file with
      | none => cases kernel <;> simp_all [build] <;> (subst h; simp)
      | some f =>
        rcases checkFileOffset_trich f size with ⟨hc, h1, h2⟩ | ⟨hc, h1⟩ | ⟨hc, h1, h2⟩ <;>
          cases kernel <;> simp_all [build] <;> (subst h; simp)
    · simp_all [build]

/-! ### 4. a failed build maps nothing -/

theorem failed_build_maps_nothing (r : BuildReq) (page : Nat) (kernel : Option Nat) (e : BErr)
    (h : (build r page kernel).1 = .error e) :
    (build r page kernel).2 = false ∨ kernel = none := by
  build_split r page kernel

/-- `mmap` is called only after every check passed; so an error other than `mmapFailed`
    means `mmap` was never called -/
theorem failed_build_no_mmap_call (r : BuildReq) (page : Nat) (kernel : Option Nat) (e : BErr)
    (h : (build r page kernel).1 = .error e) (hne : e ≠ .mmapFailed) :
    (build r page kernel).2 = false := by
  build_split r page kernel

theorem raw_never_calls_mmap (r : BuildReq) (page : Nat) (kernel : Option Nat)
    (h : r.rawPtr.isSome) : (build r page kernel).2 = false := by
  build_split r page kernel

/-! ### 5. `build_raw` alignment, `GuestRegionMmap::new` -/

theorem raw_requires_page_aligned (r : BuildReq) (page p : Nat) (kernel : Option Nat)
    (hp : r.rawPtr = some p) :
    ((∃ b, (build r page kernel).1 = .ok b) ↔ p % page = 0) ∧
    (p % page ≠ 0 → (build r page kernel).1 = .error .invalidPointer) := by
  unfold build
  simp only [hp, buildRaw]
  by_cases h : p % page = 0 <;> simp [h]

theorem buildRaw_ok_iff (r : BuildReq) (page p : Nat) :
    (∃ b, buildRaw r page p = .ok b) ↔ p % page = 0 := by
  unfold buildRaw
  by_cases h : p % page = 0 <;> simp [h]

theorem guestRegionNew_ok_iff (b : Built) (base : Nat) :
    (∃ x, guestRegionNew b base = .ok x) ↔ base + b.size < U := by
  unfold guestRegionNew checkedAdd
  by_cases h : base + b.size < U <;> simp [h]

theorem guestRegionNew_ok_val (b : Built) (base : Nat) (x : Built × Nat)
    (h : guestRegionNew b base = .ok x) : x = (b, base) := by
  unfold guestRegionNew at h
  split at h <;> cases h; rfl

theorem guestRegionNew_err_iff (b : Built) (base : Nat) :
    guestRegionNew b base = .error .invalidGuestRegion ↔ U ≤ base + b.size := by
  unfold guestRegionNew checkedAdd
  by_cases h : base + b.size < U <;> simp [h] <;> omega

/-! ### 6. Xen flag words -/

theorem fromBits_some_iff (w : Flags) : fromBits w = some w ↔ w &&& ~~~(0xb : Flags) = 0 := by
  rw [fromBits_eq_some_iff]; simp [XEN_KNOWN]

/-- only bits 0, 1, 3 may be set: the word is one of eight values -/
theorem fromBits_some_values (w : Flags) (h : fromBits w = some w) :
    w = 0x0 ∨ w = 0x1 ∨ w = 0x2 ∨ w = 0x3 ∨ w = 0x8 ∨ w = 0x9 ∨ w = 0xa ∨ w = 0xb := by
  have h0 := ((fromBits_eq_some_iff w w).1 h).1
  have hle := toNat_le_of_and_not_known w h0
  rcases small_cases w hle with e | e | e | e | e | e | e | e | e | e | e | e <;> subst e <;>
    first
      | (exfalso; revert h0; decide)
      | decide

theorem xen_flags_accept_iff (w : BitVec 32) :
    xenFlagsAccepted w = true ↔ (w = 0x0 ∨ w = 0x1 ∨ w = 0x2 ∨ w = 0xa) := by
  constructor
  · intro h
    have hs : fromBits w = some w := by
      unfold xenFlagsAccepted at h
      cases hf : fromBits w with
      | none => simp [hf] at h
      | some f => rw [((fromBits_eq_some_iff w f).1 hf).2]
    rcases fromBits_some_values w hs with e | e | e | e | e | e | e | e <;> subst e <;>
      first
        | (exfalso; revert h; decide)
        | decide
  · rintro (e | e | e | e) <;> subst e <;> decide

/-- unknown bits ⇒ refused; the four remaining "known-bit" words are refused by `is_valid` -/
theorem xen_flags_refused_iff (w : BitVec 32) :
    xenFlagsAccepted w = false ↔ (w ≠ 0x0 ∧ w ≠ 0x1 ∧ w ≠ 0x2 ∧ w ≠ 0xa) := by
  have := xen_flags_accept_iff w
  cases h : xenFlagsAccepted w
  · rw [h] at this
    constructor
    · intro _
      refine ⟨?_, ?_, ?_, ?_⟩ <;> intro e <;> exact absurd (this.2 (by simp [e])) (by simp)
    · intro _; rfl
  · constructor
    · intro h'; cases h'
    · rintro ⟨h0, h1, h2, h3⟩
      rcases this.1 h with e | e | e | e <;> contradiction

/-! ### 7. `xenValidate` -/

theorem xenRest_eq (r : XenReq) :
    xenValidate.xenRest r =
      if xenFlagsAccepted r.xenFlags = true then
        (if isForeign r.xenFlags || isGrant r.xenFlags then validateFile r.file
         else match r.file with
           | some fr => checkFileOffset fr r.size
           | none => .ok ())
      else .error (.mmapFlags r.xenFlags.toNat) := by
  unfold xenValidate.xenRest xenFlagsAccepted
  cases hf : fromBits r.xenFlags with
  | none => simp
  | some f =>
    have := ((fromBits_eq_some_iff _ _).1 hf).2
    subst this
    cases hv : isValid r.xenFlags <;> simp [hv] <;> rfl

theorem validateFile_ok_iff (file : Option FileReq) :
    validateFile file = .ok () ↔ ∃ f, file = some f ∧ f.start = 0 := by
  unfold validateFile
  cases file with
  | none => simp
  | some f => by_cases h : f.start = 0 <;> simp [h]

/-- what the non-flag part of a Xen request must satisfy -/
def XenFileOk (r : XenReq) : Prop :=
  if (isForeign r.xenFlags || isGrant r.xenFlags) = true then ∃ f, r.file = some f ∧ f.start = 0
  else ∀ f, r.file = some f → f.start + r.size < U ∧ f.start + r.size ≤ f.fileLen

theorem xenRest_ok_iff (r : XenReq) :
    xenValidate.xenRest r = .ok () ↔ xenFlagsAccepted r.xenFlags = true ∧ XenFileOk r := by
  rw [xenRest_eq]
  unfold XenFileOk
  by_cases ha : xenFlagsAccepted r.xenFlags = true
  · simp only [ha, if_true, true_and]
    by_cases hk : (isForeign r.xenFlags || isGrant r.xenFlags) = true
    · simp only [hk, if_true]; exact validateFile_ok_iff _
    · simp only [hk]
      cases hf : r.file with
      | none => simp
      | some f => simp [checkFileOffset_ok_iff]
  · simp [ha]

theorem xenValidate_ok_iff (r : XenReq) :
    xenValidate r = .ok () ↔
    (∀ f, r.flags = some f → f &&& MAP_FIXED = 0) ∧
    (r.xenFlags = 0x0 ∨ r.xenFlags = 0x1 ∨ r.xenFlags = 0x2 ∨ r.xenFlags = 0xa) ∧
    (if (isForeign r.xenFlags || isGrant r.xenFlags) = true then ∃ f, r.file = some f ∧ f.start = 0
     else ∀ f, r.file = some f → f.start + r.size < U ∧ f.start + r.size ≤ f.fileLen) := by
  rw [← xen_flags_accept_iff]
  have hr := xenRest_ok_iff r
  unfold XenFileOk at hr
  unfold xenValidate
  cases hfl : r.flags with
  | none => simp [hr]
  | some f =>
    by_cases hfix : f &&& MAP_FIXED = 0
    · simp [hfix, hr]
    · simp [hfix]

/-- `MAP_FIXED` is checked before anything else -/
theorem xenValidate_mapFixed_iff (r : XenReq) :
    xenValidate r = .error .mapFixed ↔ ∃ f, r.flags = some f ∧ f &&& MAP_FIXED ≠ 0 := by
  have hrest : xenValidate.xenRest r ≠ .error .mapFixed := by
    rw [xenRest_eq]
    split
    · split
      · unfold validateFile
        split
        · simp
        · split <;> simp
      · split
        · rename_i fr _
          rcases checkFileOffset_cases fr r.size with h | h | h <;> rw [h] <;> simp
        · simp
    · simp
  unfold xenValidate
  cases hfl : r.flags with
  | none => simp [hrest]
  | some f =>
    by_cases hfix : f &&& MAP_FIXED = 0
    · simp [hfix, hrest]
    · simp [hfix]

/-- the `MAP_FIXED` gate is passed -/
def NoMapFixed (r : XenReq) : Prop := ∀ f, r.flags = some f → f &&& MAP_FIXED = 0

theorem xenValidate_of_noMapFixed (r : XenReq) (h : NoMapFixed r) :
    xenValidate r = xenValidate.xenRest r := by
  unfold xenValidate
  cases hfl : r.flags with
  | none => rfl
  | some f => simp [h f hfl]

/-- unknown or contradictory flag words are refused with `MmapFlags(word)` -/
theorem xenValidate_mmapFlags_iff (r : XenReq) (hm : NoMapFixed r) (n : Nat) :
    xenValidate r = .error (.mmapFlags n) ↔
    n = r.xenFlags.toNat ∧
      r.xenFlags ≠ 0x0 ∧ r.xenFlags ≠ 0x1 ∧ r.xenFlags ≠ 0x2 ∧ r.xenFlags ≠ 0xa := by
  rw [xenValidate_of_noMapFixed r hm, xenRest_eq, ← xen_flags_refused_iff]
  cases ha : xenFlagsAccepted r.xenFlags with
  | false => simp [eq_comm]
  | true =>
    simp only [if_true]
    split
    · unfold validateFile
      split
      · simp
      · split <;> simp
    · split
      · rename_i fr _
        rcases checkFileOffset_cases fr r.size with h | h | h <;> rw [h] <;> simp
      · simp

/-- foreign or grant without a file -/
theorem xenValidate_foreign_grant_no_file (r : XenReq) (hm : NoMapFixed r)
    (ha : xenFlagsAccepted r.xenFlags = true)
    (hk : (isForeign r.xenFlags || isGrant r.xenFlags) = true) (hf : r.file = none) :
    xenValidate r = .error .invalidFileOffset := by
  rw [xenValidate_of_noMapFixed r hm, xenRest_eq]
  simp [ha, hk, hf, validateFile]

/-- foreign or grant with a non-zero file offset -/
theorem xenValidate_foreign_grant_offset (r : XenReq) (hm : NoMapFixed r)
    (ha : xenFlagsAccepted r.xenFlags = true)
    (hk : (isForeign r.xenFlags || isGrant r.xenFlags) = true) (f : FileReq) (hf : r.file = some f)
    (hs : f.start ≠ 0) :
    xenValidate r = .error .invalidOffsetLength := by
  rw [xenValidate_of_noMapFixed r hm, xenRest_eq]
  simp [ha, hk, hf, validateFile, hs]

/-- unix requests fall back to `check_file_offset` -/
theorem xenValidate_unix (r : XenReq) (hm : NoMapFixed r) (hu : r.xenFlags = 0x0) :
    xenValidate r = (match r.file with | some fr => checkFileOffset fr r.size | none => .ok ()) := by
  rw [xenValidate_of_noMapFixed r hm, xenRest_eq]
  have ha : xenFlagsAccepted r.xenFlags = true := by rw [hu]; decide
  have hk : (isForeign r.xenFlags || isGrant r.xenFlags) = false := by rw [hu]; decide
  simp [ha, hk]

/-- the accepted non-unix words are exactly the foreign/grant ones -/
theorem accepted_foreign_or_grant_iff (w : Flags) (ha : xenFlagsAccepted w = true) :
    (isForeign w || isGrant w) = true ↔ w ≠ 0x0 := by
  rcases (xen_flags_accept_iff w).1 ha with e | e | e | e <;> subst e <;> decide

/-! ### non-vacuity -/

/-- a request ending exactly at the end of the file is accepted -/
example : checkFileOffset { fileLen := 0x3000, start := 0x1000 } 0x2000 = .ok () := by decide
/-- one byte past is refused -/
example : checkFileOffset { fileLen := 0x3000, start := 0x1000 } 0x2001 = .error .mappingPastEof := by decide
example : checkFileOffset { fileLen := 0x3000, start := 2 ^ 64 - 1 } 1 = .error .invalidOffsetLength := by decide
example : build { size := 0x2000, prot := 3, flags := 0x4001, file := some { fileLen := 0x3000, start := 0x1000 }, rawPtr := none }
    4096 (some 0x7000_0000) =
    (.ok { addr := 0x7000_0000, size := 0x2000, prot := 3, flags := 0x4001, fileStart := some 0x1000, owned := true }, true) := by
  decide
example : build { size := 0x2001, prot := 3, flags := 0x4001, file := some { fileLen := 0x3000, start := 0x1000 }, rawPtr := none }
    4096 (some 0x7000_0000) = (.error .mappingPastEof, false) := by decide
example : build { size := 0x2000, prot := 3, flags := 0x11, file := none, rawPtr := none } 4096 (some 0x7000_0000) =
    (.error .mapFixed, false) := by decide
example : build { size := 0x2000, prot := 3, flags := 0x1, file := none, rawPtr := some 0x1001 } 4096 none =
    (.error .invalidPointer, false) := by decide
example : xenFlagsAccepted 0xa = true := by decide
example : xenFlagsAccepted 0x0 = true := by decide
example : xenFlagsAccepted 0x1 = true := by decide
example : xenFlagsAccepted 0x2 = true := by decide
example : xenFlagsAccepted 0x3 = false := by decide
example : xenFlagsAccepted 0x9 = false := by decide
example : xenFlagsAccepted 0x8 = false := by decide
example : xenFlagsAccepted 0x10 = false := by decide
example : xenFlagsAccepted 0xb = false := by decide
example : xenValidate { size := 0x1000, file := some { fileLen := 0x1000, start := 0 }, flags := none, xenFlags := 0x1 } = .ok () := by decide
example : xenValidate { size := 0x1000, file := none, flags := none, xenFlags := 0x2 } = .error .invalidFileOffset := by decide
example : xenValidate { size := 0x1000, file := some { fileLen := 0x2000, start := 8 }, flags := none, xenFlags := 0xa } = .error .invalidOffsetLength := by decide
example : xenValidate { size := 0x1000, file := none, flags := some 0x11, xenFlags := 0x3 } = .error .mapFixed := by decide
example : xenValidate { size := 0x1000, file := none, flags := some 0x1, xenFlags := 0x3 } = .error (.mmapFlags 3) := by decide

end VmMem.C15

#print axioms VmMem.C15.checkFileOffset_ok_iff
#print axioms VmMem.C15.checkFileOffset_invalidOffsetLength_iff
#print axioms VmMem.C15.checkFileOffset_mappingPastEof_iff
#print axioms VmMem.C15.build_ok_iff
#print axioms VmMem.C15.build_invalidPointer_iff
#print axioms VmMem.C15.build_mapFixed_iff
#print axioms VmMem.C15.build_invalidOffsetLength_iff
#print axioms VmMem.C15.build_mappingPastEof_iff
#print axioms VmMem.C15.build_mmapFailed_iff
#print axioms VmMem.C15.build_error_cases
#print axioms VmMem.C15.built_reports_request
#print axioms VmMem.C15.failed_build_maps_nothing
#print axioms VmMem.C15.failed_build_no_mmap_call
#print axioms VmMem.C15.raw_never_calls_mmap
#print axioms VmMem.C15.raw_requires_page_aligned
#print axioms VmMem.C15.guestRegionNew_ok_iff
#print axioms VmMem.C15.guestRegionNew_err_iff
#print axioms VmMem.C15.fromBits_some_iff
#print axioms VmMem.C15.fromBits_some_values
#print axioms VmMem.C15.xen_flags_accept_iff
#print axioms VmMem.C15.xen_flags_refused_iff
#print axioms VmMem.C15.xenValidate_ok_iff
#print axioms VmMem.C15.xenValidate_mapFixed_iff
#print axioms VmMem.C15.xenValidate_mmapFlags_iff
#print axioms VmMem.C15.xenValidate_foreign_grant_no_file
#print axioms VmMem.C15.xenValidate_foreign_grant_offset
#print axioms VmMem.C15.xenValidate_unix
