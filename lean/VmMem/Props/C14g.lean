/-
  VmMem.Props.C14g — stream transfers at GUEST-MEMORY level lose or duplicate nothing.

  `GuestMemory::{read_volatile_from, read_exact_volatile_from, write_volatile_to,
  write_all_volatile_to}` run `try_access` with a callback that calls the region-level stream
  form on one region chunk.  Everything below is stated against the flat sparse byte array
  `flat m : Nat → Option UInt8` of `VmMem.Lemmas.FlatLemmas` and quantifies over ALL fault
  scripts (`Beh`: full / short k / zero / eintr / fail, any length).

  Standing hypotheses
    * `GWF m`            well-formed memory (layout `WF` + sane containers);
    * `r.kind ≠ .fd`     the reader is not a raw descriptor (a failing `read(2)` marks the whole
                         target dirty; data-wise nothing differs, but `IoLemmas` excludes it);
                         writers: `w.kind = .scripted` (the harness stream, default all-loop);
    * `count < U`        a `usize`;
    * writers only: `HostFit m` — no host allocation ends exactly at `2^64`
                         (`host_top_counterexample` shows what the model does otherwise).

  Results
    * §0  `loop_step_ok / _zero / _err`   one iteration of `try_access`, ANY callback result
          (in particular a short count `0 < n < len`: the loop goes on at `cur + n`, still
          inside the same region);
    * §1  `Region.readVolatileFrom_eq/_spec`, `rvcb_step`, **`loop_readv`** (loop invariant);
    * §2  **`read_from_guest`**, **`frame_guest`**, **`read_exact_from_guest`**;
    * §3  `Region.writeAllVolatileTo_eq/_spec`, `wvcb_step`, **`loop_writev`**,
          **`write_to_guest`**, **`write_all_to_guest`**;
    * §4  `read_from_guest_plain` (progress for a well-behaved stream);
    * §5  `host_top_counterexample`;
    * §6  the three-region example: `[short 1, eintr, full]`, 9 bytes at `0x1002`:
          5 bytes stored (2 in A, 3 in B), `Ok(5)` / `PartialBuffer { 9, 5 }`.

  What the model (= the crate) does that a reader might not expect, stated exactly in
  `read_from_guest`: a stream error in a LATER iteration is returned as the result although
  `k > 0` bytes were already moved (and stay moved); an `Ok(0)` from the stream in a later
  iteration ends the transfer with `Ok(total)`.
-/
import VmMem.Lemmas.FlatLemmas
import VmMem.Lemmas.IoLemmas
import VmMem.Props.C03
import VmMem.Props.C14
namespace VmMem
namespace C14g
open GuestLemmas DataLemmas FlatLemmas

/-! ## 0. generic unfolding of one `try_access` iteration (any callback, any result) -/

/-- callback moved `n` bytes, `0 < n ≤ len`: either the count is reached, or the loop goes on at
    `cur + n` — which is still inside the region or exactly its end (`< 2^64`): no wrap -/
theorem loop_step_ok {σ : Type} (f : GMem → σ → Nat → Nat → Nat → Nat → GMem × σ × Res Nat)
    {m : GMem} (h : WF m) {count : Nat} (hc : count < U) (addr : Nat) (st : σ)
    {cur total i : Nat} {r : Region} (hi : m[i]? = some r)
    (hin : r.start ≤ cur ∧ cur < r.start + r.len) (ht : total < count)
    {m1 : GMem} {st1 : σ} {n : Nat} (hpos : 0 < n)
    (hn : n ≤ min (r.len - (cur - r.start)) (count - total))
    (hf : f m st total (min (r.len - (cur - r.start)) (count - total)) (cur - r.start) i =
      (m1, st1, .ok n)) :
    GMem.tryAccessLoop f count addr m st cur total =
      if total + n < count then GMem.tryAccessLoop f count addr m1 st1 (cur + n) (total + n)
      else (m1, st1, .ok count) := by
  rw [GMem.tryAccessLoop, findRegion_of_getElem? h hi hin]
  simp only [hi, Region.toRegionAddr_eq hin]
  have hcond : ¬ (r.len < cur - r.start ∨ count < total) := by omega
  rw [if_neg hcond]
  simp only [hf]
  obtain ⟨k, hk⟩ : ∃ k, n = k + 1 := ⟨n - 1, by omega⟩
  subst hk
  simp only
  have hU : total + (k + 1) < U := by omega
  rw [if_pos hU]
  by_cases hlt : total + (k + 1) < count
  · rw [if_pos hlt, if_pos hlt]
    have hnw := (no_wrap_step h hi hin (n := k + 1) (by omega)).1
    simp only [hnw, or_true, if_true]
  · rw [if_neg hlt, if_neg hlt]
    have heq : total + (k + 1) = count := by omega
    rw [if_pos heq, heq]

/-- callback returned `Ok(0)` ("no more data"): the loop returns `Ok(total)` -/
theorem loop_step_zero {σ : Type} (f : GMem → σ → Nat → Nat → Nat → Nat → GMem × σ × Res Nat)
    {m : GMem} (h : WF m) {count : Nat} (addr : Nat) (st : σ)
    {cur total i : Nat} {r : Region} (hi : m[i]? = some r)
    (hin : r.start ≤ cur ∧ cur < r.start + r.len) (ht : total < count)
    {m1 : GMem} {st1 : σ}
    (hf : f m st total (min (r.len - (cur - r.start)) (count - total)) (cur - r.start) i =
      (m1, st1, .ok 0)) :
    GMem.tryAccessLoop f count addr m st cur total = (m1, st1, .ok total) := by
  rw [GMem.tryAccessLoop, findRegion_of_getElem? h hi hin]
  simp only [hi, Region.toRegionAddr_eq hin]
  have hcond : ¬ (r.len < cur - r.start ∨ count < total) := by omega
  rw [if_neg hcond]
  simp only [hf]

/-- callback returned an error: the loop returns it, whatever was moved before -/
theorem loop_step_err {σ : Type} (f : GMem → σ → Nat → Nat → Nat → Nat → GMem × σ × Res Nat)
    {m : GMem} (h : WF m) {count : Nat} (addr : Nat) (st : σ)
    {cur total i : Nat} {r : Region} (hi : m[i]? = some r)
    (hin : r.start ≤ cur ∧ cur < r.start + r.len) (ht : total < count)
    {m1 : GMem} {st1 : σ} {e : Err}
    (hf : f m st total (min (r.len - (cur - r.start)) (count - total)) (cur - r.start) i =
      (m1, st1, .err e)) :
    GMem.tryAccessLoop f count addr m st cur total = (m1, st1, .err e) := by
  rw [GMem.tryAccessLoop, findRegion_of_getElem? h hi hin]
  simp only [hi, Region.toRegionAddr_eq hin]
  have hcond : ¬ (r.len < cur - r.start ∨ count < total) := by omega
  rw [if_neg hcond]
  simp only [hf]

/-! ## 1. the reader callback -/

/-- the callback of `GMem.readVolatileFrom`: `region.read_volatile_from(caddr, src, len)` -/
def rvcb : GMem → Reader → Nat → Nat → Nat → Nat → GMem × Reader × Res Nat :=
  fun m src _total len start idx =>
    match m[idx]? with
    | none => (m, src, .panic)
    | some reg =>
      let (reg', src', x) := reg.readVolatileFrom start src len
      (m.setRegion idx reg', src', x)

theorem readVolatileFrom_eq_loop (m : GMem) (addr : Nat) (src : Reader) (count : Nat) :
    m.readVolatileFrom addr src count = GMem.tryAccess rvcb m src count addr := rfl

/-! ### the region-level up-to form, evaluated -/

theorem splice_eq (l : List UInt8) (o : Nat) (d : List UInt8) :
    IoLemmas.splice l o d = DataLemmas.splice l o d := rfl

/-- `VolatileSlice::read_volatile_from(addr, src, count)` with `addr < s.size`: as
    `C14.in_order_no_gap_no_dup`, but for a container that may end exactly at `2^64`
    (`≤ U`): the up-to form never forms the one-past-the-end pointer. -/
theorem slice_readVolatileFrom_spec (m : Mem) (s : VSlice) (addr : Nat) (r : Reader) (count : Nat)
    (hk : r.kind ≠ .fd) (hbm : IoLemmas.BmInv m) (hin : IoLemmas.InB m s)
    (hU : m.base + m.bytes.length ≤ U) (hsz : s.size < U) (ha : addr < s.size) :
    ∃ m' r' res k, s.readVolatileFrom m addr r count = (m', r', res) ∧
      k ≤ min (s.size - addr) count ∧ k ≤ r.avail.length ∧
      r'.avail = r.avail.drop k ∧ r'.kind = r.kind ∧
      m'.bytes = DataLemmas.splice m.bytes (s.addr - m.base + addr) (r.avail.take k) ∧
      m'.base = m.base ∧ IoLemmas.BmInv m' ∧
      (res = .ok k ∨ (k = 0 ∧ res = .err (.ioError IoKind.other))) ∧
      (r.script = [] → k = min (min (s.size - addr) count) r.avail.length ∧ res = .ok k ∧
        r'.script = []) := by
  have hin' := hin
  unfold IoLemmas.InB at hin'
  unfold VSlice.readVolatileFrom
  rw [VolatileLemmas.offset_eq, if_pos (by omega), if_pos (by omega)]
  simp only []
  rw [VolatileLemmas.subslice_eq, if_pos (by omega), if_pos (by dsimp only; omega)]
  simp only [Res.unwrapRes]
  generalize hs2 : (VSlice.mk (s.addr + addr + 0) (min (s.size - addr) count)
      (sliceAt (sliceAt s.bmBase addr) 0)) = s2
  have ha2 : s2.addr = s.addr + addr := by rw [← hs2]; simp
  have hz2 : s2.size = min (s.size - addr) count := by rw [← hs2]
  have hin2 : IoLemmas.InB m s2 := by unfold IoLemmas.InB; omega
  have ho : s2.addr - m.base = s.addr - m.base + addr := by omega
  rw [Reader.readRetry_eq_skip r m s2 hk]
  cases hx : IoLemmas.xfer (IoLemmas.hd r.skipEintr.script) s2.size r.skipEintr.avail.length with
  | some n =>
    obtain ⟨m', hrv, hmv⟩ := Reader.readVolatile_moved hbm hin2 hx
    have hn := IoLemmas.xfer_le hx
    rw [ho] at hmv
    refine ⟨m', _, _, n, hrv, by omega, hmv.le, hmv.avail, hmv.kind, hmv.bytes,
      hmv.base, hmv.bm, .inl rfl, ?_⟩
    intro hs
    have hsk : r.skipEintr.script = [] := by simp [Reader.skipEintr, hs]
    rw [hsk] at hx
    simp only [IoLemmas.hd, IoLemmas.xfer, Reader.skipEintr_avail, Option.some.injEq] at hx
    refine ⟨by omega, rfl, ?_⟩
    simp [hsk]
  | none =>
    have he := (IoLemmas.xfer_none_iff _ _ _).1 hx
    have hf : IoLemmas.hd r.skipEintr.script = .fail := by
      rcases he with he | he
      · exact absurd he (Reader.skipEintr_hd r)
      · exact he
    rw [Reader.readVolatile_err m s2 (by exact hk) he, hf]
    refine ⟨m, _, _, 0, rfl, Nat.zero_le _, Nat.zero_le _, rfl, rfl, by simp,
      rfl, hbm, .inr ⟨rfl, rfl⟩, ?_⟩
    intro hs
    have hsk : r.skipEintr.script = [] := by simp [Reader.skipEintr, hs]
    rw [hsk] at hf
    cases hf

theorem Region.readVolatileFrom_eq (r : Region) (hl : r.len < U) (a : Nat) (src : Reader)
    (count : Nat) :
    r.readVolatileFrom a src count =
      ({ r with mem := ((rootSlice r).readVolatileFrom r.mem a src count).1 },
       ((rootSlice r).readVolatileFrom r.mem a src count).2.1,
       ((rootSlice r).readVolatileFrom r.mem a src count).2.2.mapErr Res.toGuestErr) := by
  unfold Region.readVolatileFrom
  rw [asVolatileSlice_eq r hl]
  rfl

theorem rootSlice_inB (r : Region) : IoLemmas.InB r.mem (rootSlice r) := rootSlice_inside r

/-- `GuestRegionMmap::read_volatile_from(a, src, count)` at an offset inside the region, for
    every script: `k ≤ min(rest of region, count)` bytes left the reader and were stored, in
    order, at region offset `a`; `Ok(k)`, or `k = 0` and the stream's own error. -/
theorem Region.readVolatileFrom_spec (r : Region) (hr : RegWF r) (a : Nat) (ha : a < r.len)
    (src : Reader) (hk : src.kind ≠ .fd) (count : Nat) :
    ∃ mem' src' res k, r.readVolatileFrom a src count = ({ r with mem := mem' }, src', res) ∧
      k ≤ min (r.len - a) count ∧ k ≤ src.avail.length ∧
      src'.avail = src.avail.drop k ∧ src'.kind = src.kind ∧
      mem'.bytes = DataLemmas.splice r.mem.bytes a (src.avail.take k) ∧
      mem'.base = r.mem.base ∧ DataLemmas.BmInv mem' ∧
      (res = .ok k ∨ (k = 0 ∧ res = .err (.ioError IoKind.other))) ∧
      (src.script = [] → k = min (min (r.len - a) count) src.avail.length ∧ res = .ok k ∧
        src'.script = []) := by
  obtain ⟨m', r', res, k, h, hk1, hk2, hav, hkind, hb, hbase, hinv, hres, hplain⟩ :=
    slice_readVolatileFrom_spec r.mem (rootSlice r) a src count hk hr.inv (rootSlice_inB r)
      hr.fits hr.len_lt ha
  have ho : (rootSlice r).addr - r.mem.base + a = a := by
    show r.mem.base + 0 - r.mem.base + a = a; omega
  rw [ho] at hb
  refine ⟨m', r', res.mapErr Res.toGuestErr, k, ?_, hk1, hk2, hav, hkind, hb, hbase, hinv, ?_, ?_⟩
  · rw [Region.readVolatileFrom_eq r hr.len_lt, h]
  · rcases hres with h1 | ⟨h0, h1⟩
    · left; rw [h1]; rfl
    · right; rw [h1]; exact ⟨h0, rfl⟩
  · intro hs
    obtain ⟨e1, e2, e3⟩ := hplain hs
    exact ⟨e1, by rw [e2]; rfl, e3⟩

/-- `flat` after one region's container had `d` spliced in at region offset `w` -/
theorem flat_spliced {m : GMem} (h : WF m) {i : Nat} {r : Region} (hi : m[i]? = some r)
    {mem' : Mem} {w : Nat} {d : List UInt8}
    (hb : mem'.bytes = DataLemmas.splice r.mem.bytes w d) (hbase : mem'.base = r.mem.base)
    (hw : w + d.length ≤ r.len) (a : Nat) :
    flat (m.set i { r with mem := mem' }) a =
      if r.start + w ≤ a ∧ a < r.start + w + d.length then d[a - (r.start + w)]? else flat m a := by
  have hw' : w + d.length ≤ r.mem.bytes.length := hw
  have hlen : mem'.bytes.length = r.mem.bytes.length := by
    rw [hb]; exact DataLemmas.splice_length _ _ _ hw'
  rw [flat_set h hi (key_with_mem r hlen hbase)]
  by_cases hin : r.start ≤ a ∧ a < r.start + r.len
  · rw [if_pos hin, flat_of_getElem? h hi hin]
    show mem'.bytes[a - r.start]? = _
    rw [hb, DataLemmas.splice_getElem? _ _ _ hw']
    by_cases h1 : a - r.start < w
    · rw [if_pos h1, if_neg (by omega)]
    · rw [if_neg h1]
      by_cases h2 : a - r.start < w + d.length
      · rw [if_pos h2, if_pos (by omega)]
        congr 1; omega
      · rw [if_neg h2, if_neg (by omega)]
  · rw [if_neg hin, if_neg (by omega)]

/-- one call of the reader callback at a mapped address -/
theorem rvcb_step {m : GMem} (h : GWF m) {cur i : Nat} {r : Region}
    (hi : m[i]? = some r) (hin : r.start ≤ cur ∧ cur < r.start + r.len)
    (src : Reader) (hk : src.kind ≠ .fd) (total len : Nat) :
    ∃ mem' src' res k,
      rvcb m src total len (cur - r.start) i = (m.set i { r with mem := mem' }, src', res) ∧
      k ≤ min (r.len - (cur - r.start)) len ∧ k ≤ src.avail.length ∧
      src'.avail = src.avail.drop k ∧ src'.kind = src.kind ∧
      mem'.bytes = DataLemmas.splice r.mem.bytes (cur - r.start) (src.avail.take k) ∧
      mem'.base = r.mem.base ∧ DataLemmas.BmInv mem' ∧
      (res = .ok k ∨ (k = 0 ∧ res = .err (.ioError IoKind.other))) ∧
      (src.script = [] → k = min (min (r.len - (cur - r.start)) len) src.avail.length ∧
        res = .ok k ∧ src'.script = []) := by
  obtain ⟨mem', src', res, k, hcall, hrest⟩ :=
    Region.readVolatileFrom_spec r (h.regWF hi) (cur - r.start) (by omega) src hk len
  refine ⟨mem', src', res, k, ?_, hrest⟩
  unfold rvcb
  simp only [hi, hcall]
  rfl

/-- **loop invariant for `read_volatile_from`**: started at `(cur, total)` on a well-formed
    memory with a reader that is not a raw descriptor, for every script, the loop consumes some
    `k ≤ run` bytes from the reader and stores exactly these, in order, at the guest addresses
    `cur .. cur + k` (across region boundaries; a short transfer inside a region continues inside
    that region), keeps layout and well-formedness, changes no other byte, and returns
    `Ok(total + k)`, or the stream's own error (whatever was moved before), or
    `InvalidGuestAddress` when nothing at all was mapped at the very first address. -/
theorem loop_readv {count : Nat} (hc : count < U) (addr : Nat) :
    ∀ (n : Nat) (m : GMem) (src : Reader) (cur total : Nat), GWF m → src.kind ≠ .fd →
      count - total = n → total < count →
      ∃ m' src' res k, GMem.tryAccessLoop rvcb count addr m src cur total = (m', src', res) ∧
        k ≤ runLen m cur (count - total) ∧ k ≤ src.avail.length ∧
        src'.avail = src.avail.drop k ∧ src'.kind = src.kind ∧
        SameLayout m m' ∧ GWF m' ∧
        (∀ a, flat m' a =
          if cur ≤ a ∧ a < cur + k then (src.avail.take k)[a - cur]? else flat m a) ∧
        (¬ mapped m cur → m' = m ∧ src' = src) ∧
        (res = .ok (total + k) ∨ (res = .err (.ioError IoKind.other) ∧ total + k < count) ∨
          (total = 0 ∧ ¬ mapped m cur ∧ res = .err (.invalidGuestAddress addr))) ∧
        (src.script = [] → k = min (runLen m cur (count - total)) src.avail.length ∧
          src'.script = [] ∧ res ≠ .err (.ioError IoKind.other)) := by
  intro n
  induction n using Nat.strongRecOn with
  | _ n ih =>
    intro m src cur total h hk hn ht
    rcases mapped_or_not m cur with ⟨i, r, hi, hin⟩ | hun
    · have hmap : mapped m cur := (mapped_iff_getElem? m cur).2 ⟨i, r, hi, hin⟩
      have hrw := h.1.getElem? hi
      obtain ⟨mem', src1, res0, k0, hcb, hk0, hk0a, hav0, hkind0, hb0, hbase0, hinv0, hres0, hpl0⟩ :=
        rvcb_step h hi hin src hk total (min (r.len - (cur - r.start)) (count - total))
      have hdl : (src.avail.take k0).length = k0 := List.length_take_of_le hk0a
      have hw : cur - r.start + (src.avail.take k0).length ≤ r.len := by rw [hdl]; omega
      have hlen : mem'.bytes.length = r.mem.bytes.length := by
        rw [hb0]; exact DataLemmas.splice_length _ _ _ hw
      have hkey := key_with_mem r hlen hbase0
      have hsl1 : SameLayout m (m.set i { r with mem := mem' }) := SameLayout.set hi hkey
      have hg1 : GWF (m.set i { r with mem := mem' }) := h.set hi hkey hinv0
      have hfl1 : ∀ a, flat (m.set i { r with mem := mem' }) a =
          if cur ≤ a ∧ a < cur + k0 then (src.avail.take k0)[a - cur]? else flat m a := by
        intro a
        rw [flat_spliced h.1 hi hb0 hbase0 hw, hdl]
        have e : r.start + (cur - r.start) = cur := by omega
        rw [e]
      rcases hres0 with hres0 | ⟨hz, hres0⟩
      · subst hres0
        by_cases hk0z : k0 = 0
        · subst hk0z
          rw [loop_step_zero rvcb h.1 addr src hi hin ht hcb]
          refine ⟨_, src1, _, 0, rfl, Nat.zero_le _, Nat.zero_le _, hav0, hkind0, hsl1, hg1,
            hfl1, fun hn' => absurd hmap hn', .inl rfl, ?_⟩
          intro hs
          obtain ⟨e1, _, e3⟩ := hpl0 hs
          exact ⟨by omega, e3, by simp⟩
        · have hk0pos : 0 < k0 := Nat.pos_of_ne_zero hk0z
          rw [loop_step_ok rvcb h.1 hc addr src hi hin ht hk0pos (by omega) hcb]
          have hall : ∀ j, j < k0 → mapped m (cur + j) := by
            intro j hj
            exact ⟨r, List.mem_of_getElem? hi, by omega, by omega⟩
          have hrun := runLen_add m cur k0 (count - total) (by omega) hall
          by_cases hlt : total + k0 < count
          · rw [if_pos hlt]
            obtain ⟨m', src', res, k1, hres, hk1, hk1a, hav1, hkind1, hsl, hg, hfl, _, hr1, hpl1⟩ :=
              ih (count - (total + k0)) (by omega) _ src1 (cur + k0) (total + k0) hg1
                (by rw [hkind0]; exact hk) rfl hlt
            rw [hsl1.runLen] at hk1
            have e1 : count - total - k0 = count - (total + k0) := by omega
            rw [e1] at hrun
            rw [hav0, List.length_drop] at hk1a
            rw [hsl1.runLen, hav0, List.length_drop] at hpl1
            refine ⟨m', src', res, k0 + k1, hres, by omega, by omega, ?_, hkind1.trans hkind0,
              hsl1.trans hsl, hg, ?_, fun hn' => absurd hmap hn', ?_, ?_⟩
            · rw [hav1, hav0, List.drop_drop]
            · intro a
              rw [hfl a, hfl1 a, hav0]
              by_cases c1 : cur + k0 ≤ a ∧ a < cur + k0 + k1
              · rw [if_pos c1, if_pos (by omega), List.getElem?_take, List.getElem?_take,
                  if_pos (by omega), if_pos (by omega), List.getElem?_drop]
                congr 1; omega
              · rw [if_neg c1]
                by_cases c2 : cur ≤ a ∧ a < cur + k0
                · rw [if_pos c2, if_pos (by omega), List.getElem?_take, List.getElem?_take,
                    if_pos (by omega), if_pos (by omega)]
                · rw [if_neg c2, if_neg (by omega)]
            · rcases hr1 with hr1 | hr1 | ⟨h0, _⟩
              · left; rw [hr1, Nat.add_assoc]
              · right; left; exact ⟨hr1.1, by have := hr1.2; omega⟩
              · omega
            · intro hs
              obtain ⟨e1, _, e3⟩ := hpl0 hs
              obtain ⟨f1, f2, f3⟩ := hpl1 e3
              exact ⟨by omega, f2, f3⟩
          · rw [if_neg hlt]
            refine ⟨_, src1, _, k0, rfl, by omega, hk0a, hav0, hkind0, hsl1, hg1, hfl1,
              fun hn' => absurd hmap hn', .inl ?_, ?_⟩
            · have : total + k0 = count := by omega
              rw [this]
            · intro hs
              obtain ⟨_, _, e3⟩ := hpl0 hs
              have hkeq : count - total - k0 = 0 := by omega
              rw [hkeq, runLen_zero, Nat.add_zero] at hrun
              exact ⟨by omega, e3, by simp⟩
      · subst hz; subst hres0
        rw [loop_step_err rvcb h.1 addr src hi hin ht hcb]
        refine ⟨_, src1, _, 0, rfl, Nat.zero_le _, Nat.zero_le _, hav0, hkind0, hsl1, hg1,
          hfl1, fun hn' => absurd hmap hn', .inr (.inl ⟨rfl, by omega⟩), ?_⟩
        intro hs
        obtain ⟨_, e2, _⟩ := hpl0 hs
        cases e2
    · rw [loop_unmapped rvcb h.1 count addr src total hun]
      by_cases ht0 : total = 0
      · rw [if_pos ht0]
        refine ⟨m, src, _, 0, rfl, Nat.zero_le _, Nat.zero_le _, rfl, rfl, SameLayout.refl m, h,
          ?_, fun _ => ⟨rfl, rfl⟩, .inr (.inr ⟨ht0, hun, rfl⟩), ?_⟩
        · intro a; rw [if_neg (by omega)]
        · intro hs; rw [runLen_unmapped hun]; exact ⟨by omega, hs, by simp⟩
      · rw [if_neg ht0]
        refine ⟨m, src, _, 0, rfl, Nat.zero_le _, Nat.zero_le _, rfl, rfl, SameLayout.refl m, h,
          ?_, fun _ => ⟨rfl, rfl⟩, .inl rfl, ?_⟩
        · intro a; rw [if_neg (by omega)]
        · intro hs; rw [runLen_unmapped hun]; exact ⟨by omega, hs, by simp⟩

/-! ## 2. `read_volatile_from` / `read_exact_volatile_from` on guest memory -/

/-- **C14g.1 `read_from_guest`.**  `GuestMemory::read_volatile_from(addr, src, count)` on a
    well-formed memory, for a reader that is not a raw descriptor, for EVERY script:
    * `count = 0`: `Ok(0)`, nothing touched (the callback is never called);
    * first address unmapped: `InvalidGuestAddress(addr)`, nothing touched, reader untouched;
    * otherwise some `k ≤ runLen m addr count` bytes left the reader (`r'.avail = r.avail.drop k`)
      and exactly these are stored, in order, at the guest addresses `addr .. addr + k` — across
      region boundaries, none dropped, none duplicated; every other byte of the flat memory is
      unchanged (`frame_guest`); layout and well-formedness are kept.  The call returns `Ok(k)`,
      or the stream's own error.  **Model (= crate) behaviour, stated exactly:** when the stream
      fails in a LATER iteration `try_access` returns that error although `k > 0` bytes were
      already moved (`k` can be positive in the error case; it is `< count`).
      Never `Interrupted`, never a panic. -/
theorem read_from_guest (m : GMem) (h : GWF m) (r : Reader) (hk : r.kind ≠ .fd) (count : Nat)
    (hc : count < U) (addr : Nat) :
    (count = 0 → m.readVolatileFrom addr r count = (m, r, .ok 0)) ∧
    (0 < count → ¬ mapped m addr →
      m.readVolatileFrom addr r count = (m, r, .err (.invalidGuestAddress addr))) ∧
    (0 < count → mapped m addr →
      ∃ m' r' res k, m.readVolatileFrom addr r count = (m', r', res) ∧
        k ≤ runLen m addr count ∧ k ≤ r.avail.length ∧
        r'.avail = r.avail.drop k ∧ r'.kind = r.kind ∧
        SameLayout m m' ∧ GWF m' ∧
        (∀ a, flat m' a =
          if addr ≤ a ∧ a < addr + k then (r.avail.take k)[a - addr]? else flat m a) ∧
        (res = .ok k ∨ (res = .err (.ioError IoKind.other) ∧ k < count)) ∧
        res ≠ .err (.ioError IoKind.interrupted) ∧ res ≠ .panic ∧
        (r.script = [] → k = min (runLen m addr count) r.avail.length ∧ res = .ok k ∧
          r'.script = [])) := by
  rw [readVolatileFrom_eq_loop]
  unfold GMem.tryAccess
  refine ⟨fun h0 => by rw [if_pos h0], ?_, ?_⟩
  · intro hpos hun
    rw [if_neg (by omega), loop_unmapped rvcb h.1 count addr r 0 hun, if_pos rfl]
  · intro hpos hmap
    rw [if_neg (by omega)]
    obtain ⟨m', r', res, k, hres, hk1, hk2, hav, hkind, hsl, hg, hfl, _, hr, hpl⟩ :=
      loop_readv hc addr count m r addr 0 h hk rfl hpos
    simp only [Nat.sub_zero, Nat.zero_add] at hk1 hr hpl
    have hr' : res = .ok k ∨ (res = .err (.ioError IoKind.other) ∧ k < count) := by
      rcases hr with hr | hr | ⟨_, hn, _⟩
      · exact .inl hr
      · exact .inr hr
      · exact absurd hmap hn
    refine ⟨m', r', res, k, hres, hk1, hk2, hav, hkind, hsl, hg, hfl, hr', ?_, ?_, ?_⟩
    · rcases hr' with hr' | ⟨hr', _⟩ <;> rw [hr'] <;> simp [IoKind.other, IoKind.interrupted]
    · rcases hr' with hr' | ⟨hr', _⟩ <;> rw [hr'] <;> simp
    · intro hs
      obtain ⟨e1, e2, e3⟩ := hpl hs
      refine ⟨e1, ?_, e2⟩
      rcases hr' with hr' | ⟨hr', _⟩
      · exact hr'
      · exact absurd hr' e3

/-- **C14g.4 `frame_guest`**: bytes outside `[addr, addr + k)` are unchanged, holes stay holes. -/
theorem frame_guest (m : GMem) (h : GWF m) (r : Reader) (hk : r.kind ≠ .fd) (count : Nat)
    (hc : count < U) (addr : Nat) :
    ∃ k, k ≤ count ∧ (m.readVolatileFrom addr r count).2.1.avail = r.avail.drop k ∧
      ∀ a, ¬ (addr ≤ a ∧ a < addr + k) → flat (m.readVolatileFrom addr r count).1 a = flat m a := by
  obtain ⟨h0, h1, h2⟩ := read_from_guest m h r hk count hc addr
  by_cases hz : count = 0
  · rw [h0 hz]; exact ⟨0, Nat.zero_le _, rfl, fun _ _ => rfl⟩
  · by_cases hmap : mapped m addr
    · obtain ⟨m', r', res, k, hres, hk1, _, hav, _, _, _, hfl, _⟩ := h2 (by omega) hmap
      rw [hres]
      refine ⟨k, by have := runLen_le m addr count; omega, hav, ?_⟩
      intro a ha
      show flat m' a = flat m a
      rw [hfl a, if_neg ha]
    · rw [h1 (by omega) hmap]; exact ⟨0, Nat.zero_le _, rfl, fun _ _ => rfl⟩

/-- **C14g.2 `read_exact_from_guest`.**  `read_exact_volatile_from(addr, src, count)`:
    the memory / reader effect is that of `read_from_guest`; the result is `Ok(())` iff all
    `count` bytes were moved; otherwise `PartialBuffer { expected: count, completed: k }` when
    the transfer ended early without a stream error (a hole after `k` bytes, end of data, a
    `zero` call), or the stream's own error (with `k < count` bytes already stored). -/
theorem read_exact_from_guest (m : GMem) (h : GWF m) (r : Reader) (hk : r.kind ≠ .fd)
    (count : Nat) (hc : count < U) (addr : Nat) :
    (count = 0 → m.readExactVolatileFrom addr r count = (m, r, .ok ())) ∧
    (0 < count → ¬ mapped m addr →
      m.readExactVolatileFrom addr r count = (m, r, .err (.invalidGuestAddress addr))) ∧
    (0 < count → mapped m addr →
      ∃ m' r' res k, m.readExactVolatileFrom addr r count = (m', r', res) ∧
        k ≤ runLen m addr count ∧ k ≤ r.avail.length ∧
        r'.avail = r.avail.drop k ∧ r'.kind = r.kind ∧
        SameLayout m m' ∧ GWF m' ∧
        (∀ a, flat m' a =
          if addr ≤ a ∧ a < addr + k then (r.avail.take k)[a - addr]? else flat m a) ∧
        (res = .ok () ↔ k = count) ∧
        (res = .ok () ∨ (res = .err (.partialBuffer count k) ∧ k < count) ∨
          (res = .err (.ioError IoKind.other) ∧ k < count)) ∧
        res ≠ .err (.ioError IoKind.interrupted) ∧ res ≠ .panic) := by
  obtain ⟨h0, h1, h2⟩ := read_from_guest m h r hk count hc addr
  unfold GMem.readExactVolatileFrom
  refine ⟨fun hz => by rw [h0 hz]; simp [hz], fun hp hun => by rw [h1 hp hun], ?_⟩
  intro hp hmap
  obtain ⟨m', r', res, k, hres, hk1, hk2, hav, hkind, hsl, hg, hfl, hr, _, _, _⟩ := h2 hp hmap
  rw [hres]
  have hkc : k ≤ count := by have := runLen_le m addr count; omega
  rcases hr with hr | ⟨hr, hlt⟩
  · subst hr
    by_cases hkk : k = count
    · refine ⟨m', r', .ok (), k, by simp [hkk], hk1, hk2, hav, hkind, hsl, hg, hfl,
        by simp [hkk], .inl rfl, by simp, by simp⟩
    · refine ⟨m', r', .err (.partialBuffer count k), k, by simp [hkk], hk1, hk2, hav, hkind, hsl,
        hg, hfl, by simp [hkk], .inr (.inl ⟨rfl, by omega⟩), by simp, by simp⟩
  · subst hr
    refine ⟨m', r', _, k, rfl, hk1, hk2, hav, hkind, hsl, hg, hfl, ?_,
      .inr (.inr ⟨rfl, hlt⟩), by simp [IoKind.other, IoKind.interrupted], by simp⟩
    constructor
    · intro hh; cases hh
    · intro hh; omega

/-! ## 3. writers -/

/-- the callback of `GMem.writeVolatileTo`:
    `region.write_all_volatile_to(caddr, dst, len).map(|()| len)` -/
def wvcb : GMem → Writer → Nat → Nat → Nat → Nat → GMem × Writer × Res Nat :=
  fun m dst _total len start idx =>
    match m[idx]? with
    | none => (m, dst, .panic)
    | some reg =>
      match reg.writeAllVolatileTo start dst len with
      | (w', .ok ()) => (m, w', .ok len)
      | (w', .err e) => (m, w', .err e)
      | (w', .panic) => (m, w', .panic)

theorem writeVolatileTo_eq_loop (m : GMem) (addr : Nat) (dst : Writer) (count : Nat) :
    m.writeVolatileTo addr dst count =
      ((GMem.tryAccess wvcb m dst count addr).2.1, (GMem.tryAccess wvcb m dst count addr).2.2) :=
  rfl

theorem Region.writeAllVolatileTo_eq (r : Region) (hl : r.len < U) (a : Nat) (dst : Writer)
    (count : Nat) :
    r.writeAllVolatileTo a dst count =
      (((rootSlice r).writeAllVolatileTo r.mem a dst count).1,
       ((rootSlice r).writeAllVolatileTo r.mem a dst count).2.mapErr Res.toGuestErr) := by
  unfold Region.writeAllVolatileTo
  rw [asVolatileSlice_eq r hl]
  rfl

/-- every host allocation ends strictly below `2^64` (true of every real mapping: Rust requires
    `ptr + len` not to wrap, the kernel never maps the last page).  `GWF` only has `≤ 2^64`;
    the difference matters for `write_all_volatile` only — see `host_top_counterexample`. -/
def HostFit (m : GMem) : Prop := ∀ r ∈ m, r.mem.base + r.mem.bytes.length < U

instance (m : GMem) : Decidable (HostFit m) := by unfold HostFit; infer_instance

theorem flatRead_add (fl : Nat → Option UInt8) (a k0 k1 : Nat) :
    flatRead fl a (k0 + k1) = flatRead fl a k0 ++ flatRead fl (a + k0) k1 := by
  unfold flatRead
  rw [List.range_add, List.map_append, List.map_map]
  congr 1
  apply List.map_congr_left
  intro i _
  simp [Nat.add_assoc]

/-- `GuestRegionMmap::write_all_volatile_to(a, dst, len)` for a chunk inside the region, into a
    harness stream, for every script: the sink received the first `k ≤ len` bytes of the chunk,
    appended in order; `Ok(())` iff `k = len`, else `WriteZero` or the stream's own error. -/
theorem Region.writeAllVolatileTo_spec (r : Region) (hr : RegWF r)
    (htop : r.mem.base + r.mem.bytes.length < U) (a len : Nat) (hfit : a + len ≤ r.len)
    (w : Writer) (hk : w.kind = .scripted) :
    ∃ w' res k, r.writeAllVolatileTo a w len = (w', res) ∧ k ≤ len ∧
      w'.buf = w.buf ++ (r.mem.bytes.drop a).take k ∧ w'.kind = w.kind ∧ w'.pos = w.pos ∧
      (res = .ok () ↔ k = len) ∧
      (res = .ok () ∨ res = .err (.ioError IoKind.writeZero) ∨
        res = .err (.ioError IoKind.other)) := by
  obtain ⟨w', res, k, hcall, hk1, hbuf, hkind, hpos, hiff, hres⟩ :=
    C14.writeAllVolatileTo_spec r.mem (rootSlice r) a w len hk (rootSlice_inB r) htop hfit
  have ho : (rootSlice r).addr - r.mem.base + a = a := by
    show r.mem.base + 0 - r.mem.base + a = a; omega
  rw [ho] at hbuf
  refine ⟨w', res.mapErr Res.toGuestErr, k, ?_, hk1, hbuf, hkind, hpos, ?_, ?_⟩
  · rw [Region.writeAllVolatileTo_eq r hr.len_lt, hcall]
  · rw [← hiff]
    rcases hres with h | h | h <;> rw [h] <;> simp [Res.mapErr, Res.toGuestErr]
  · rcases hres with h | h | h <;> rw [h] <;> simp [Res.mapErr, Res.toGuestErr]

/-- one call of the writer callback at a mapped address -/
theorem wvcb_step {m : GMem} (h : GWF m) (hfit : HostFit m) {cur i : Nat} {r : Region}
    (hi : m[i]? = some r) (hin : r.start ≤ cur ∧ cur < r.start + r.len)
    (w : Writer) (hk : w.kind = .scripted) (total len : Nat) (hlen : len ≤ r.len - (cur - r.start)) :
    ∃ w' res k, wvcb m w total len (cur - r.start) i = (m, w', res) ∧ k ≤ len ∧
      w'.buf = w.buf ++ flatRead (flat m) cur k ∧ w'.kind = w.kind ∧ w'.pos = w.pos ∧
      ((k = len ∧ res = .ok len) ∨
       (k < len ∧ (res = .err (.ioError IoKind.writeZero) ∨ res = .err (.ioError IoKind.other)))) := by
  obtain ⟨w', res, k, hcall, hk1, hbuf, hkind, hpos, hiff, hres⟩ :=
    Region.writeAllVolatileTo_spec r (h.regWF hi) (hfit r (List.mem_of_getElem? hi))
      (cur - r.start) len (by omega) w hk
  have hwin := region_window_flat h.1 hi (cur - r.start) k (by omega)
  have e : r.start + (cur - r.start) = cur := by omega
  rw [e] at hwin
  have hfr : (r.mem.bytes.drop (cur - r.start)).take k = flatRead (flat m) cur k :=
    eq_flatRead hwin.1 hwin.2
  rw [hfr] at hbuf
  unfold wvcb
  simp only [hi, hcall]
  rcases hres with hr | hr | hr
  · have hkl := hiff.1 hr
    subst hr
    exact ⟨w', _, k, rfl, hk1, hbuf, hkind, hpos, .inl ⟨hkl, rfl⟩⟩
  · have hkl : k ≠ len := fun hh => by have := hiff.2 hh; rw [hr] at this; cases this
    subst hr
    exact ⟨w', _, k, rfl, hk1, hbuf, hkind, hpos, .inr ⟨by omega, .inl rfl⟩⟩
  · have hkl : k ≠ len := fun hh => by have := hiff.2 hh; rw [hr] at this; cases this
    subst hr
    exact ⟨w', _, k, rfl, hk1, hbuf, hkind, hpos, .inr ⟨by omega, .inr rfl⟩⟩

/-- **loop invariant for `write_volatile_to`** (harness sink, every script): the sink receives
    `flatRead (flat m) cur k` appended in order, `k ≤ run`; `Ok(total + run)` exactly when the
    whole run went out (every region chunk is pushed by the all-loop, which retries short counts
    inside the chunk); otherwise `k < run` bytes went out and the error is `WriteZero` (a `zero`
    call) or the stream's own; memory is only read. -/
theorem loop_writev {m : GMem} (h : GWF m) (hfit : HostFit m) {count : Nat} (hc : count < U)
    (addr : Nat) :
    ∀ (n : Nat) (w : Writer) (cur total : Nat), w.kind = .scripted → count - total = n →
      total < count →
      ∃ w' res k, GMem.tryAccessLoop wvcb count addr m w cur total = (m, w', res) ∧
        k ≤ runLen m cur (count - total) ∧
        w'.buf = w.buf ++ flatRead (flat m) cur k ∧ w'.kind = w.kind ∧ w'.pos = w.pos ∧
        ((res = .ok (total + k) ∧ k = runLen m cur (count - total) ∧ (total = 0 → mapped m cur)) ∨
         (k < runLen m cur (count - total) ∧
           (res = .err (.ioError IoKind.writeZero) ∨ res = .err (.ioError IoKind.other))) ∨
         (total = 0 ∧ k = 0 ∧ ¬ mapped m cur ∧ res = .err (.invalidGuestAddress addr))) := by
  intro n
  induction n using Nat.strongRecOn with
  | _ n ih =>
    intro w cur total hk hn ht
    rcases mapped_or_not m cur with ⟨i, r, hi, hin⟩ | hun
    · have hmap : mapped m cur := (mapped_iff_getElem? m cur).2 ⟨i, r, hi, hin⟩
      have hrw := h.1.getElem? hi
      obtain ⟨w1, res0, k0, hcb, hk0, hbuf0, hkind0, hpos0, hres0⟩ :=
        wvcb_step h hfit hi hin w hk total (min (r.len - (cur - r.start)) (count - total))
          (Nat.min_le_left _ _)
      generalize hlen : min (r.len - (cur - r.start)) (count - total) = len at hcb hk0 hres0
      have hlpos : 0 < len := by omega
      have hall : ∀ j, j < len → mapped m (cur + j) := by
        intro j hj
        exact ⟨r, List.mem_of_getElem? hi, by omega, by omega⟩
      have hrun := runLen_add m cur len (count - total) (by omega) hall
      rcases hres0 with ⟨hkl, hr0⟩ | ⟨hkl, hr0⟩
      · subst hkl; subst hr0
        rw [loop_step wvcb h.1 hc addr w hi hin ht hlen.symm hcb]
        by_cases hlt : total + k0 < count
        · rw [if_pos hlt]
          obtain ⟨w', res, k1, hres, hk1, hbuf1, hkind1, hpos1, hr1⟩ :=
            ih (count - (total + k0)) (by omega) w1 (cur + k0) (total + k0)
              (by rw [hkind0]; exact hk) rfl hlt
          have e1 : count - total - k0 = count - (total + k0) := by omega
          rw [e1] at hrun
          refine ⟨w', res, k0 + k1, hres, by omega, ?_, hkind1.trans hkind0, hpos1.trans hpos0, ?_⟩
          · rw [hbuf1, hbuf0, List.append_assoc, flatRead_add]
          · rcases hr1 with ⟨hr1, hk1e, _⟩ | ⟨hk1l, hr1⟩ | ⟨h0, _⟩
            · left; exact ⟨by rw [hr1, Nat.add_assoc], by omega, fun _ => hmap⟩
            · right; left; exact ⟨by omega, hr1⟩
            · omega
        · rw [if_neg hlt]
          have hkeq : count - total - k0 = 0 := by omega
          rw [hkeq, runLen_zero, Nat.add_zero] at hrun
          refine ⟨w1, _, k0, rfl, by omega, hbuf0, hkind0, hpos0, .inl ⟨?_, hrun.symm, fun _ => hmap⟩⟩
          have : total + k0 = count := by omega
          rw [this]
      · have hee : ∃ e, res0 = .err e := by
          rcases hr0 with hr0 | hr0 <;> exact ⟨_, hr0⟩
        obtain ⟨e, he⟩ := hee
        rw [he, ← hlen] at hcb
        rw [loop_step_err wvcb h.1 addr w hi hin ht hcb]
        refine ⟨w1, _, k0, rfl, by omega, hbuf0, hkind0, hpos0, .inr (.inl ⟨by omega, ?_⟩)⟩
        rw [← he]; exact hr0
    · rw [loop_unmapped wvcb h.1 count addr w total hun, runLen_unmapped hun]
      have hfr0 : flatRead (flat m) cur 0 = [] := rfl
      by_cases ht0 : total = 0
      · rw [if_pos ht0]
        exact ⟨w, _, 0, rfl, Nat.le_refl _, by rw [hfr0, List.append_nil], rfl, rfl,
          .inr (.inr ⟨ht0, rfl, hun, rfl⟩)⟩
      · rw [if_neg ht0]
        exact ⟨w, _, 0, rfl, Nat.le_refl _, by rw [hfr0, List.append_nil], rfl, rfl,
          .inl ⟨rfl, rfl, fun h0 => absurd h0 ht0⟩⟩

/-- **C14g.3a `write_to_guest`.**  `GuestMemory::write_volatile_to(addr, dst, count)` into a
    harness stream, for EVERY script, on a well-formed memory whose host allocations end below
    `2^64`: the sink receives `flatRead (flat m) addr k` — the bytes of the guest addresses
    `addr .. addr + k`, in order, across region boundaries — appended to what it held;
    `Ok(run)` exactly when the whole run of mapped addresses (capped at `count`) went out;
    otherwise `k < run` bytes went out and the error is `WriteZero` (a `zero` call inside a
    region chunk: the callback uses `write_all_volatile_to`, a short count inside a chunk is
    retried by the all-loop) or the stream's own error.  Guest memory is only read (the model
    function returns no memory).  Never `Interrupted`, never a panic. -/
theorem write_to_guest (m : GMem) (h : GWF m) (hfit : HostFit m) (w : Writer)
    (hk : w.kind = .scripted) (count : Nat) (hc : count < U) (addr : Nat) :
    (count = 0 → m.writeVolatileTo addr w count = (w, .ok 0)) ∧
    (0 < count → ¬ mapped m addr →
      m.writeVolatileTo addr w count = (w, .err (.invalidGuestAddress addr))) ∧
    (0 < count → mapped m addr →
      ∃ w' res k, m.writeVolatileTo addr w count = (w', res) ∧
        k ≤ runLen m addr count ∧
        w'.buf = w.buf ++ flatRead (flat m) addr k ∧ w'.kind = w.kind ∧ w'.pos = w.pos ∧
        ((res = .ok k ∧ k = runLen m addr count) ∨
         (k < runLen m addr count ∧
           (res = .err (.ioError IoKind.writeZero) ∨ res = .err (.ioError IoKind.other)))) ∧
        res ≠ .err (.ioError IoKind.interrupted) ∧ res ≠ .panic) := by
  rw [writeVolatileTo_eq_loop]
  unfold GMem.tryAccess
  refine ⟨fun h0 => by rw [if_pos h0], ?_, ?_⟩
  · intro hpos hun
    rw [if_neg (by omega), loop_unmapped wvcb h.1 count addr w 0 hun, if_pos rfl]
  · intro hpos hmap
    rw [if_neg (by omega)]
    obtain ⟨w', res, k, hres, hk1, hbuf, hkind, hpos', hr⟩ :=
      loop_writev h hfit hc addr count w addr 0 hk rfl hpos
    simp only [Nat.sub_zero, Nat.zero_add] at hk1 hr
    rw [hres]
    have hr' : (res = .ok k ∧ k = runLen m addr count) ∨
        (k < runLen m addr count ∧
          (res = .err (.ioError IoKind.writeZero) ∨ res = .err (.ioError IoKind.other))) := by
      rcases hr with ⟨h1, h2, _⟩ | hr | ⟨_, _, hn, _⟩
      · exact .inl ⟨h1, h2⟩
      · exact .inr hr
      · exact absurd hmap hn
    refine ⟨w', res, k, rfl, hk1, hbuf, hkind, hpos', hr', ?_, ?_⟩ <;>
      rcases hr' with ⟨hr', _⟩ | ⟨_, hr' | hr'⟩ <;> rw [hr'] <;>
      simp [IoKind.other, IoKind.interrupted, IoKind.writeZero]

/-- **C14g.3b `write_all_to_guest`.**  `write_all_volatile_to(addr, dst, count)`: same sink
    effect; `Ok(())` iff all `count` bytes went out; otherwise
    `PartialBuffer { expected: count, completed: run }` when the run of mapped addresses is
    shorter than `count` (a hole) and the stream took all of it, or `WriteZero` / the stream's
    error with `k < run` bytes out. -/
theorem write_all_to_guest (m : GMem) (h : GWF m) (hfit : HostFit m) (w : Writer)
    (hk : w.kind = .scripted) (count : Nat) (hc : count < U) (addr : Nat) :
    (count = 0 → m.writeAllVolatileTo addr w count = (w, .ok ())) ∧
    (0 < count → ¬ mapped m addr →
      m.writeAllVolatileTo addr w count = (w, .err (.invalidGuestAddress addr))) ∧
    (0 < count → mapped m addr →
      ∃ w' res k, m.writeAllVolatileTo addr w count = (w', res) ∧
        k ≤ runLen m addr count ∧
        w'.buf = w.buf ++ flatRead (flat m) addr k ∧ w'.kind = w.kind ∧ w'.pos = w.pos ∧
        (res = .ok () ↔ k = count) ∧
        (res = .ok () ∨
         (res = .err (.partialBuffer count k) ∧ k = runLen m addr count ∧ k < count) ∨
         (k < runLen m addr count ∧
           (res = .err (.ioError IoKind.writeZero) ∨ res = .err (.ioError IoKind.other)))) ∧
        res ≠ .err (.ioError IoKind.interrupted) ∧ res ≠ .panic) := by
  obtain ⟨h0, h1, h2⟩ := write_to_guest m h hfit w hk count hc addr
  unfold GMem.writeAllVolatileTo
  refine ⟨fun hz => by rw [h0 hz]; simp [hz], fun hp hun => by rw [h1 hp hun], ?_⟩
  intro hp hmap
  obtain ⟨w', res, k, hres, hk1, hbuf, hkind, hpos, hr, _, _⟩ := h2 hp hmap
  rw [hres]
  have hrl := runLen_le m addr count
  rcases hr with ⟨hr, hkr⟩ | ⟨hlt, hr⟩
  · subst hr
    by_cases hkk : k = count
    · exact ⟨w', .ok (), k, by simp [hkk], hk1, hbuf, hkind, hpos, by simp [hkk], .inl rfl,
        by simp, by simp⟩
    · exact ⟨w', .err (.partialBuffer count k), k, by simp [hkk], hk1, hbuf, hkind, hpos,
        by simp [hkk], .inr (.inl ⟨rfl, hkr, by omega⟩), by simp, by simp⟩
  · have hne : k ≠ count := by omega
    rcases hr with hr | hr <;> subst hr
    · exact ⟨w', _, k, rfl, hk1, hbuf, hkind, hpos,
        ⟨fun hh => (by cases hh), fun hh => absurd hh hne⟩, .inr (.inr ⟨hlt, .inl rfl⟩),
        by simp [IoKind.writeZero, IoKind.interrupted], by simp⟩
    · exact ⟨w', _, k, rfl, hk1, hbuf, hkind, hpos,
        ⟨fun hh => (by cases hh), fun hh => absurd hh hne⟩, .inr (.inr ⟨hlt, .inr rfl⟩),
        by simp [IoKind.other, IoKind.interrupted], by simp⟩

/-! ## 4. corollaries for a well-behaved stream (empty script = every call is `full`) -/

/-- **`read_from_guest_plain`**: with a stream that never misbehaves the transfer moves exactly
    `min(run, available)` bytes — everything up to the first hole, the end of `count`, or the
    end of the data — and returns that number.  (Progress: the statement of `read_from_guest`
    alone would also be met by a transfer that moves nothing.) -/
theorem read_from_guest_plain (m : GMem) (h : GWF m) (r : Reader) (hk : r.kind ≠ .fd)
    (hs : r.script = []) (count : Nat) (hc : count < U) (hpos : 0 < count) (addr : Nat)
    (hmap : mapped m addr) :
    ∃ m' r', m.readVolatileFrom addr r count =
        (m', r', .ok (min (runLen m addr count) r.avail.length)) ∧
      r'.avail = r.avail.drop (min (runLen m addr count) r.avail.length) ∧
      ∀ a, flat m' a =
        if addr ≤ a ∧ a < addr + min (runLen m addr count) r.avail.length
        then r.avail[a - addr]? else flat m a := by
  obtain ⟨m', r', res, k, hres, _, _, hav, _, _, _, hfl, _, _, _, hpl⟩ :=
    (read_from_guest m h r hk count hc addr).2.2 hpos hmap
  obtain ⟨e1, e2, _⟩ := hpl hs
  subst e2
  rw [e1] at hres hav hfl
  refine ⟨m', r', hres, hav, ?_⟩
  intro a
  rw [hfl a]
  split
  · rw [List.getElem?_take, if_pos (by omega)]
  · rfl

/-! ## 5. why `HostFit` is a hypothesis of the writer theorems -/

/-- a (fictitious) region whose host allocation ends exactly at `2^64` -/
def topMem : GMem := [{ start := 0x1000, mem := ⟨U - 4, [1, 2, 3, 4], none⟩, id := 1 }]

theorem topMem_GWF : GWF topMem := C03.gwf_of_untracked topMem (by decide) (by decide)

/-- **model remark** (`GWF` admits `base + len = 2^64`; no real mapping does): there
    `write_all_volatile_to` hands all four bytes to the sink and then fails forming the
    one-past-the-end pointer (`VolatileSlice::offset`: `Overflow` → `InvalidBackendAddress`).
    An error value, not a panic (`C07.no_panic_guest` needs no `HostFit`); the reader forms are
    not affected (`read_from_guest` needs no `HostFit`). -/
theorem host_top_counterexample :
    ¬ HostFit topMem ∧
    topMem.writeVolatileTo 0x1000 { kind := .scripted, buf := [], pos := 0, script := [] } 4 =
      ({ kind := .scripted, buf := [1, 2, 3, 4], pos := 0, script := [] },
       .err .invalidBackendAddress) := by
  constructor
  · decide
  · decide +kernel

/-! ## 6. non-vacuity: the three-region memory of C03

  `C03.exMem`: A = `[0x1000, 0x1004)`, B = `[0x1004, 0x1007)` (touching A), hole
  `[0x1007, 0x100a)`, C = `[0x100a, 0x100c)`.  A transfer of 9 bytes at `0x1002` spans A and B
  and ends in the hole: `runLen = 5`. -/

def exReader (σ : List Beh) : Reader :=
  { kind := .scripted, data := [1, 2, 3, 4, 5, 6, 7, 8, 9], pos := 0, script := σ }

/-- 2 bytes in A, 3 in B -/
def exAfter : GMem :=
  [{ C03.regA with mem := ⟨0x7000, [0xA0, 0xA1, 1, 2], none⟩ },
   { C03.regB with mem := ⟨0x8000, [3, 4, 5], none⟩ }, C03.regC]

/-- `[short 1, eintr, full]`: the first call moves ONE byte — the loop continues at `0x1003`,
    still inside A; the interruption is retried; then A's last byte, then B's three bytes; the
    hole ends the transfer: `Ok(5)`, five bytes consumed, stored in order across the boundary. -/
theorem ex_read :
    C03.exMem.readVolatileFrom 0x1002 (exReader [.short 1, .eintr, .full]) 9 =
      (exAfter, { kind := .scripted, data := [6, 7, 8, 9], pos := 0, script := [] }, .ok 5) := by
  decide +kernel

/-- the exact form reports `PartialBuffer { expected: 9, completed: 5 }` -/
theorem ex_read_exact :
    C03.exMem.readExactVolatileFrom 0x1002 (exReader [.short 1, .eintr, .full]) 9 =
      (exAfter, { kind := .scripted, data := [6, 7, 8, 9], pos := 0, script := [] },
       .err (.partialBuffer 9 5)) := by
  decide +kernel

/-- the flat view afterwards -/
example : (List.range 12).map (fun i => flat exAfter (0x1000 + i)) =
    [some 0xA0, some 0xA1, some 1, some 2, some 3, some 4, some 5, none, none, none,
     some 0xC0, some 0xC1] := by decide

/-- the same through the theorems, for ANY well-behaved 9-byte stream: `Ok(5)` … -/
theorem ex_read_via_theorem (r : Reader) (hk : r.kind ≠ .fd) (hs : r.script = [])
    (hd : r.avail.length = 9) : (C03.exMem.readVolatileFrom 0x1002 r 9).2.2 = .ok 5 := by
  obtain ⟨m', r', e, _⟩ := read_from_guest_plain C03.exMem C03.exMem_GWF r hk hs 9 (by decide)
    (by decide) 0x1002 (by decide)
  rw [e, hd]
  show Res.ok (min (runLen C03.exMem 0x1002 9) 9) = Res.ok 5
  decide

/-- … and, for every script, the exact form never reports more than the run -/
theorem ex_read_exact_via_theorem (σ : List Beh) :
    ∃ k, k ≤ 5 ∧
      ((C03.exMem.readExactVolatileFrom 0x1002 (exReader σ) 9).2.2 = .err (.partialBuffer 9 k) ∨
       (C03.exMem.readExactVolatileFrom 0x1002 (exReader σ) 9).2.2 = .err (.ioError IoKind.other)) := by
  obtain ⟨m', r', res, k, e, hk1, _, _, _, _, _, _, hiff, hres, _⟩ :=
    (read_exact_from_guest C03.exMem C03.exMem_GWF (exReader σ) (by simp [exReader]) 9 (by decide)
      0x1002).2.2 (by decide) (by decide)
  have hrun : runLen C03.exMem 0x1002 9 = 5 := by decide
  rw [hrun] at hk1
  rw [e]
  refine ⟨k, hk1, ?_⟩
  rcases hres with h | ⟨h, _⟩ | ⟨h, _⟩
  · have := hiff.1 h; omega
  · exact .inl h
  · exact .inr h

/-- a stream failure in a LATER iteration: `[short 1, fail]` — the first byte is stored, the
    second call fails, and `try_access` returns the error although one byte was moved -/
theorem ex_read_late_failure :
    C03.exMem.readVolatileFrom 0x1002 (exReader [.short 1, .fail]) 9 =
      ([{ C03.regA with mem := ⟨0x7000, [0xA0, 0xA1, 1, 0xA3], none⟩ }, C03.regB, C03.regC],
       { kind := .scripted, data := [2, 3, 4, 5, 6, 7, 8, 9], pos := 0, script := [] },
       .err (.ioError IoKind.other)) := by
  decide +kernel

def exWriter (σ : List Beh) : Writer := { kind := .scripted, buf := [0xEE], pos := 0, script := σ }

theorem exMem_HostFit : HostFit C03.exMem := by decide

/-- writer, `[short 1, eintr, full]`: inside A's chunk the short count is retried by the
    all-loop; the sink receives A2 A3 B0 B1 B2 in order; `Ok(5)` -/
theorem ex_write :
    C03.exMem.writeVolatileTo 0x1002 (exWriter [.short 1, .eintr, .full]) 9 =
      ({ kind := .scripted, buf := [0xEE, 0xA2, 0xA3, 0xB0, 0xB1, 0xB2], pos := 0, script := [] },
       .ok 5) := by
  decide +kernel

theorem ex_write_all :
    C03.exMem.writeAllVolatileTo 0x1002 (exWriter [.short 1, .eintr, .full]) 9 =
      ({ kind := .scripted, buf := [0xEE, 0xA2, 0xA3, 0xB0, 0xB1, 0xB2], pos := 0, script := [] },
       .err (.partialBuffer 9 5)) := by
  decide +kernel

/-- a `zero` inside a region chunk gives `WriteZero`; the one byte sent stays sent -/
theorem ex_write_zero :
    C03.exMem.writeVolatileTo 0x1002 (exWriter [.short 1, .zero]) 9 =
      ({ kind := .scripted, buf := [0xEE, 0xA2], pos := 0, script := [] },
       .err (.ioError IoKind.writeZero)) := by
  decide +kernel

/-- through the theorem: whatever the script, what reaches the sink is a prefix of
    `A2 A3 B0 B1 B2` -/
theorem ex_write_via_theorem (σ : List Beh) :
    ∃ k, k ≤ 5 ∧ (C03.exMem.writeVolatileTo 0x1002 (exWriter σ) 9).1.buf =
      [0xEE] ++ ([0xA2, 0xA3, 0xB0, 0xB1, 0xB2] : List UInt8).take k := by
  obtain ⟨w', res, k, e, hk1, hbuf, _⟩ :=
    (write_to_guest C03.exMem C03.exMem_GWF exMem_HostFit (exWriter σ) rfl 9 (by decide)
      0x1002).2.2 (by decide) (by decide)
  have hrun : runLen C03.exMem 0x1002 9 = 5 := by decide
  rw [hrun] at hk1
  rw [e]
  refine ⟨k, hk1, ?_⟩
  show w'.buf = _
  rw [hbuf]
  show [0xEE] ++ flatRead (flat C03.exMem) 0x1002 k = _
  have : ∀ k, k ≤ 5 → flatRead (flat C03.exMem) 0x1002 k =
      ([0xA2, 0xA3, 0xB0, 0xB1, 0xB2] : List UInt8).take k := by decide
  rw [this k hk1]

#print axioms loop_step_ok
#print axioms loop_step_zero
#print axioms loop_step_err
#print axioms slice_readVolatileFrom_spec
#print axioms Region.readVolatileFrom_eq
#print axioms Region.readVolatileFrom_spec
#print axioms flat_spliced
#print axioms rvcb_step
#print axioms loop_readv
#print axioms read_from_guest
#print axioms frame_guest
#print axioms read_exact_from_guest
#print axioms read_from_guest_plain
#print axioms Region.writeAllVolatileTo_eq
#print axioms Region.writeAllVolatileTo_spec
#print axioms wvcb_step
#print axioms loop_writev
#print axioms write_to_guest
#print axioms write_all_to_guest
#print axioms host_top_counterexample
#print axioms ex_read
#print axioms ex_read_exact
#print axioms ex_read_via_theorem
#print axioms ex_read_exact_via_theorem
#print axioms ex_read_late_failure
#print axioms ex_write
#print axioms ex_write_all
#print axioms ex_write_zero
#print axioms ex_write_via_theorem

end C14g
end VmMem
