/-
  VmMem.Props.C07 — guest-controlled addresses and lengths can never crash the monitor.

  In the model every Rust `panic!` / `assert!` / `unwrap()` on `None` / slice index out of range /
  division by zero / arithmetic overflow (build with overflow checks) — and every access outside
  a container, which would be undefined behaviour — is the result `.panic`.  "The monitor cannot
  be crashed" is: no entry point returns `.panic`.

  Three families of entry points, each an inductive enumeration of requests with their operands,
  one `run` function, one theorem `∀ req, req.Valid → (run … req).isPanic = false`:

    * `BitmapReq` / `runBitmap` / **`no_panic_bitmap`**  under `C09.Inv b`       — no operand bound;
    * `SliceReq`  / `runSlice`  / **`no_panic_slice`**   under `BmInv`, `MemWF`, `Inside`
          — no operand bound; the only guards are on `copy_to/copy_from::<T>` and concern the
            VMM's own buffer (`SliceReq.Valid`);
    * `GuestReq`  / `runGuest`  / **`no_panic_guest`**   under `FlatLemmas.GWF m`
          — buffer lengths `< 2^64` (`GuestReq.Valid`), nothing else.
  The stream forms are covered for EVERY reader / writer kind (also raw descriptors) and every
  fault script, through §1 (`readRetry_safe`, `readExactLoop_safe`, `writeAllLoop_safe`, …) and the
  generic `loop_no_panic` of §2 (any callback that keeps the invariant and does not panic).

  Stated separately and exactly:
    * `documented_panics`     — `VolatileArrayRef::{ref_at, load, store}` panic iff `index ≥ len`;
    * `enlarge_guard`, `zero_len_region_guard`, `oversized_zst_guard` — not guest-controlled;
    * `profiles_agree`        — the profile-parametric primitives agree whenever the result fits;
    * `readExactLoop_fuel`, `writeAllLoop_fuel` + the termination note of §9;
    * `bitmap_invariant_needed` — the constructor invariant cannot be dropped.
-/
import VmMem.Model.Copy
import VmMem.Props.C01
import VmMem.Props.C02
import VmMem.Props.C03
import VmMem.Props.C04
import VmMem.Props.C09
import VmMem.Props.C10
import VmMem.Props.C14
import VmMem.Props.C14g
import VmMem.Props.C19
namespace VmMem
namespace C07
open VolatileLemmas IoLemmas GuestLemmas FlatLemmas

/-! ## 0. vocabulary -/

/-- forget the value of a result: only `ok / err / panic` matters here -/
def void {α : Type} : Res α → Res Unit
  | .ok _ => .ok ()
  | .err e => .err e
  | .panic => .panic

@[simp] theorem void_isPanic {α : Type} (x : Res α) : (void x).isPanic = x.isPanic := by
  cases x <;> rfl

theorem isPanic_false_iff {α : Type} (x : Res α) : x.isPanic = false ↔ x ≠ .panic := by
  cases x <;> simp [Res.isPanic]

theorem isPanic_of_ok {α : Type} {x : Res α} {a : α} (h : x = .ok a) : x.isPanic = false := by
  rw [h]; rfl

theorem isPanic_of_err {α : Type} {x : Res α} {e : Err} (h : x = .err e) : x.isPanic = false := by
  rw [h]; rfl

/-! ## 1. streams: one call, `retry_eintr!`, the exact loops — every kind, every script -/

/-- the container after a stream call: same base, same length, bitmap invariant kept -/
structure Keeps (m m' : Mem) : Prop where
  base : m'.base = m.base
  len : m'.bytes.length = m.bytes.length
  bm : BmInv m'

theorem Keeps.refl {m : Mem} (h : BmInv m) : Keeps m m := ⟨rfl, rfl, h⟩
theorem Keeps.trans {a b c : Mem} (h1 : Keeps a b) (h2 : Keeps b c) : Keeps a c :=
  ⟨h2.base.trans h1.base, h2.len.trans h1.len, h2.bm⟩
theorem Keeps.inB {m m' : Mem} (h : Keeps m m') {s : VSlice} (hin : InB m s) : InB m' s := by
  unfold InB at *; rw [h.base, h.len]; exact hin

/-- one `read_volatile` call — ANY kind of reader (also raw descriptors), any script: never a
    panic; the container keeps base, length and bitmap invariant; an `Ok(n)` has `n ≤ s.size` -/
theorem readVolatile_safe (r : Reader) (m : Mem) (s : VSlice) (hbm : BmInv m) (hin : InB m s) :
    ∃ m' r' res, r.readVolatile m s = (m', r', res) ∧ res ≠ .panic ∧ Keeps m m' ∧
      ∀ n, res = .ok n → n ≤ s.size := by
  have hin' := hin
  unfold InB at hin'
  have hgo : ∀ limit, ∃ m' r' res, Reader.rvGo r.next m s limit = (m', r', res) ∧ res ≠ .panic ∧
      Keeps m m' ∧ ∀ n, res = .ok n → n ≤ s.size := by
    intro limit
    obtain ⟨m', h, hb, hbase, hinv⟩ := Reader.rvGo_spec hbm hin r.next limit
    refine ⟨m', _, _, h, by simp, ⟨hbase, ?_, hinv⟩, ?_⟩
    · rw [hb, splice_length]
      rw [List.length_take]; omega
    · intro n hn; cases hn; omega
  have hfail : ∀ k, ∃ m' r' res, Reader.rvFail r.next m s k = (m', r', res) ∧ res ≠ .panic ∧
      Keeps m m' ∧ ∀ n, res = .ok n → n ≤ s.size := by
    intro k
    unfold Reader.rvFail
    cases r.next.kind
    case fd =>
      obtain ⟨m', hm', hb, hbase, hinv⟩ := mark_ok hbm s.bmBase 0 s.size
      simp only [hm']
      exact ⟨m', _, _, rfl, by simp, ⟨hbase, by rw [hb], hinv⟩, by intro n hn; cases hn⟩
    all_goals exact ⟨m, _, _, rfl, by simp, Keeps.refl hbm, by intro n hn; cases hn⟩
  rw [Reader.readVolatile_eq]
  cases hd r.script with
  | full => exact hgo _
  | short k => exact hgo _
  | zero => exact ⟨m, _, _, rfl, by simp, Keeps.refl hbm, by intro n hn; cases hn; omega⟩
  | eintr => exact hfail _
  | fail => exact hfail _

/-- `retry_eintr!(read_volatile)` — any kind, any script -/
theorem readRetry_safe (r : Reader) (m : Mem) (s : VSlice) (hbm : BmInv m) (hin : InB m s) :
    ∃ m' r' res, r.readRetry m s = (m', r', res) ∧ res ≠ .panic ∧ Keeps m m' ∧
      ∀ n, res = .ok n → n ≤ s.size := by
  generalize hσ : r.script = σ
  induction σ generalizing r m with
  | nil =>
    rw [Reader.readRetry_nil m s hσ]
    exact readVolatile_safe r m s hbm hin
  | cons b rest ih =>
    obtain ⟨m1, r1, res1, h1, hnp1, hk1, hle1⟩ := readVolatile_safe r m s hbm hin
    conv => enter [1, m', 1, r', 1, res, 1, 1]; unfold Reader.readRetry
    split
    · simp_all
    · rename_i b' rest' hsc
      rw [h1]
      cases res1 with
      | ok n => exact ⟨m1, r1, _, rfl, hnp1, hk1, hle1⟩
      | panic => exact absurd rfl hnp1
      | err e =>
        cases e with
        | ioError k =>
          simp only
          by_cases hki : k = IoKind.interrupted
          · rw [if_pos hki]
            obtain ⟨m2, r2, res2, h2, hnp2, hk2, hle2⟩ :=
              ih { r1 with script := rest' } m1 hk1.bm (hk1.inB hin) (by
                rw [hσ] at hsc; injection hsc with _ h; exact h.symm)
            exact ⟨m2, r2, res2, h2, hnp2, hk1.trans hk2, hle2⟩
          · rw [if_neg hki]
            exact ⟨m1, r1, _, rfl, by simp, hk1, by intro n hn; cases hn⟩
        | _ => exact ⟨m1, r1, _, rfl, by simp, hk1, by intro n hn; cases hn⟩

/-- the default `read_exact_volatile` loop — any kind, any script: with fuel `> p.size` the
    model's loop never runs out of fuel and never panics.  (No `< 2^64` strictness needed: at an
    allocation ending exactly at `2^64` the loop returns the `Overflow` *error* of
    `VolatileSlice::offset`, see `C14.offset_at_top_overflows`.) -/
theorem readExactLoop_safe (fuel : Nat) (r : Reader) (m : Mem) (p : VSlice) (hbm : BmInv m)
    (hin : InB m p) (hf : p.size < fuel) :
    ∃ m' r' res, r.readExactLoop fuel m p = (m', r', res) ∧ res ≠ .panic ∧ Keeps m m' := by
  induction fuel generalizing r m p with
  | zero => omega
  | succ fuel ih =>
    unfold Reader.readExactLoop
    by_cases hz : p.size = 0
    · rw [if_pos hz]; exact ⟨m, r, _, rfl, by simp, Keeps.refl hbm⟩
    · rw [if_neg hz]
      obtain ⟨m1, r1, res1, h1, hnp1, hk1, _⟩ := readRetry_safe r m p hbm hin
      rw [h1]
      cases res1 with
      | panic => exact absurd rfl hnp1
      | err e => exact ⟨m1, r1, _, rfl, by simp, hk1⟩
      | ok n =>
        cases n with
        | zero => exact ⟨m1, r1, _, rfl, by simp, hk1⟩
        | succ n =>
          simp only
          rw [offset_eq]
          by_cases hU : p.addr + (n + 1) < U
          · rw [if_pos hU]
            by_cases hle : n + 1 ≤ p.size
            · rw [if_pos hle]
              simp only
              have hin1 := hk1.inB hin
              unfold InB at hin1
              obtain ⟨m2, r2, res2, h2, hnp2, hk2⟩ := ih r1 m1
                { addr := p.addr + (n + 1), size := p.size - (n + 1),
                  bmBase := sliceAt p.bmBase (n + 1) } hk1.bm
                (by unfold InB; simp only []; omega) (by simp only []; omega)
              exact ⟨m2, r2, res2, h2, hnp2, hk1.trans hk2⟩
            · rw [if_neg hle]; exact ⟨m1, r1, _, rfl, by simp, hk1⟩
          · rw [if_neg hU]; exact ⟨m1, r1, _, rfl, by simp, hk1⟩

/-- `read_exact_volatile` with the overrides of `&[u8]` and `Cursor` — any kind, any script -/
theorem readExact_safe (r : Reader) (m : Mem) (s : VSlice) (hbm : BmInv m) (hin : InB m s) :
    ∃ m' r' res, r.readExact m s = (m', r', res) ∧ res ≠ .panic ∧ Keeps m m' := by
  have hover : ∃ m' r' res,
      (if s.size > r.avail.length then (m, r, .err (ioErr IoKind.unexpectedEof))
        else
          match r.readVolatile m s with
          | (m', r', .ok _) => (m', r', .ok ())
          | (m', r', .err e) => (m', r', .err e)
          | (m', r', .panic) => (m', r', (.panic : Res Unit))) = (m', r', res) ∧
        res ≠ .panic ∧ Keeps m m' := by
    split
    · exact ⟨m, r, _, rfl, by simp, Keeps.refl hbm⟩
    · obtain ⟨m1, r1, res1, h1, hnp1, hk1, _⟩ := readVolatile_safe r m s hbm hin
      rw [h1]
      cases res1 with
      | ok n => exact ⟨m1, r1, _, rfl, by simp, hk1⟩
      | err e => exact ⟨m1, r1, _, rfl, by simp, hk1⟩
      | panic => exact absurd rfl hnp1
  have hdef : ∃ m' r' res,
      (match s.offset 0 with
        | .ok p => r.readExactLoop (s.size + 1) m p
        | .err e => (m, r, .err e)
        | .panic => (m, r, .panic)) = (m', r', res) ∧ res ≠ .panic ∧ Keeps m m' := by
    rw [offset_eq]
    have hin' := hin
    unfold InB at hin'
    by_cases hU : s.addr + 0 < U
    · rw [if_pos hU, if_pos (Nat.zero_le _)]
      simp only
      exact readExactLoop_safe (s.size + 1) r m _ hbm (by unfold InB; simp only []; omega)
        (by simp only []; omega)
    · rw [if_neg hU]; exact ⟨m, r, _, rfl, by simp, Keeps.refl hbm⟩
  unfold Reader.readExact
  cases r.kind
  · exact hover
  · exact hover
  · exact hdef
  · exact hdef

/-- one `write_volatile` call — any kind of sink, any script: never a panic -/
theorem writeVolatile_safe (w : Writer) (m : Mem) (s : VSlice) (hin : InB m s) :
    (w.writeVolatile m s).2 ≠ .panic := by
  rcases C14.writeVolatile_cases w m s hin with ⟨n, h, _⟩ | ⟨k, h, _⟩ <;> rw [h] <;> simp

theorem writeRetry_safe (w : Writer) (m : Mem) (s : VSlice) (hin : InB m s) :
    (w.writeRetry m s).2 ≠ .panic := by
  rw [Writer.writeRetry_drop_eintr]
  exact writeVolatile_safe _ m s hin

/-- the default `write_all_volatile` loop — any kind of sink, any script: with fuel `> p.size`
    the model's loop never runs out of fuel and never panics -/
theorem writeAllLoop_safe (fuel : Nat) (w : Writer) (m : Mem) (p : VSlice) (hin : InB m p)
    (hf : p.size < fuel) : (w.writeAllLoop fuel m p).2 ≠ .panic := by
  induction fuel generalizing w p with
  | zero => omega
  | succ fuel ih =>
    unfold Writer.writeAllLoop
    by_cases hz : p.size = 0
    · rw [if_pos hz]; simp
    · rw [if_neg hz]
      have hnp := writeRetry_safe w m p hin
      rcases hwr : w.writeRetry m p with ⟨w1, res1⟩
      rw [hwr] at hnp
      cases res1 with
      | panic => exact absurd rfl hnp
      | err e => simp
      | ok n =>
        cases n with
        | zero => simp
        | succ n =>
          simp only
          rw [offset_eq]
          have hin' := hin
          unfold InB at hin'
          by_cases hU : p.addr + (n + 1) < U
          · rw [if_pos hU]
            by_cases hle : n + 1 ≤ p.size
            · rw [if_pos hle]
              simp only
              exact ih w1 _ (by unfold InB; simp only []; omega) (by simp only []; omega)
            · rw [if_neg hle]; simp
          · rw [if_neg hU]; simp

theorem writeAll_safe (w : Writer) (m : Mem) (s : VSlice) (hin : InB m s) :
    (w.writeAll m s).2 ≠ .panic := by
  have hdef : (match s.offset 0 with
        | .ok p => w.writeAllLoop (s.size + 1) m p
        | .err e => (w, .err e)
        | .panic => (w, .panic)).2 ≠ .panic := by
    rw [offset_eq]
    have hin' := hin
    unfold InB at hin'
    by_cases hU : s.addr + 0 < U
    · rw [if_pos hU, if_pos (Nat.zero_le _)]
      simp only
      exact writeAllLoop_safe (s.size + 1) w m _ (by unfold InB; simp only []; omega)
        (by simp only []; omega)
    · rw [if_neg hU]; simp
  unfold Writer.writeAll
  cases w.kind
  · simp only
    have hnp := writeVolatile_safe w m s hin
    rcases hwr : w.writeVolatile m s with ⟨w1, res1⟩
    rw [hwr] at hnp
    cases res1 with
    | panic => exact absurd rfl hnp
    | err e => simp
    | ok n => simp only; split <;> simp
  all_goals exact hdef

/-! ### the four stream forms of `Bytes<usize> for VolatileSlice` — any `addr`, any `count` -/

theorem slice_readVolatileFrom_safe (m : Mem) (s : VSlice) (addr : Nat) (r : Reader) (count : Nat)
    (hbm : BmInv m) (hin : InB m s) (hsz : s.size < U) :
    ∃ m' r' res, s.readVolatileFrom m addr r count = (m', r', res) ∧ res ≠ .panic ∧ Keeps m m' := by
  have hin' := hin
  unfold InB at hin'
  unfold VSlice.readVolatileFrom
  rw [offset_eq]
  by_cases hU : s.addr + addr < U
  · rw [if_pos hU]
    by_cases hle : addr ≤ s.size
    · rw [if_pos hle]
      simp only
      rw [subslice_eq, if_pos (by first | omega | (dsimp only; omega)), if_pos (by first | omega | (dsimp only; omega))]
      simp only [Res.unwrapRes]
      obtain ⟨m1, r1, res1, h1, hnp1, hk1, _⟩ := readRetry_safe r m
        { addr := s.addr + addr + 0, size := min (s.size - addr) count,
          bmBase := sliceAt (sliceAt s.bmBase addr) 0 } hbm (by unfold InB; dsimp only; omega)
      exact ⟨m1, r1, res1, h1, hnp1, hk1⟩
    · rw [if_neg hle]; exact ⟨m, r, _, rfl, by simp, Keeps.refl hbm⟩
  · rw [if_neg hU]; exact ⟨m, r, _, rfl, by simp, Keeps.refl hbm⟩

theorem slice_readExactVolatileFrom_safe (m : Mem) (s : VSlice) (addr : Nat) (r : Reader)
    (count : Nat) (hbm : BmInv m) (hin : InB m s) :
    ∃ m' r' res, s.readExactVolatileFrom m addr r count = (m', r', res) ∧ res ≠ .panic ∧
      Keeps m m' := by
  have hin' := hin
  unfold InB at hin'
  unfold VSlice.readExactVolatileFrom
  rw [subslice_eq]
  by_cases hU : addr + count < U
  · rw [if_pos hU]
    by_cases hle : addr + count ≤ s.size
    · rw [if_pos hle]
      simp only
      exact readExact_safe r m _ hbm (by unfold InB; dsimp only; omega)
    · rw [if_neg hle]; exact ⟨m, r, _, rfl, by simp, Keeps.refl hbm⟩
  · rw [if_neg hU]; exact ⟨m, r, _, rfl, by simp, Keeps.refl hbm⟩

theorem slice_writeVolatileTo_safe (m : Mem) (s : VSlice) (addr : Nat) (w : Writer) (count : Nat)
    (hin : InB m s) (hsz : s.size < U) : (s.writeVolatileTo m addr w count).2 ≠ .panic := by
  have hin' := hin
  unfold InB at hin'
  unfold VSlice.writeVolatileTo
  rw [offset_eq]
  by_cases hU : s.addr + addr < U
  · rw [if_pos hU]
    by_cases hle : addr ≤ s.size
    · rw [if_pos hle]
      simp only
      rw [subslice_eq, if_pos (by first | omega | (dsimp only; omega)), if_pos (by first | omega | (dsimp only; omega))]
      simp only [Res.unwrapRes]
      exact writeRetry_safe w m _ (by unfold InB; dsimp only; omega)
    · rw [if_neg hle]; simp
  · rw [if_neg hU]; simp

theorem slice_writeAllVolatileTo_safe (m : Mem) (s : VSlice) (addr : Nat) (w : Writer)
    (count : Nat) (hin : InB m s) : (s.writeAllVolatileTo m addr w count).2 ≠ .panic := by
  have hin' := hin
  unfold InB at hin'
  unfold VSlice.writeAllVolatileTo
  rw [subslice_eq]
  by_cases hU : addr + count < U
  · rw [if_pos hU]
    by_cases hle : addr + count ≤ s.size
    · rw [if_pos hle]
      simp only
      exact writeAll_safe w m _ (by unfold InB; dsimp only; omega)
    · rw [if_neg hle]; simp
  · rw [if_neg hU]; simp

/-! ## 2. the `try_access` loop never panics for a callback that does not -/

/-- For ANY callback that — called on a region of a memory satisfying `P` — keeps `P` and does
    not panic, the loop of `try_access` does not panic, whatever the callback reports (also a
    count larger than it was asked for: that is `CallbackOutOfRange`, an error value), for every
    `count` and every start address.  The indexing `regions[idx]`, the `unwrap` of
    `to_region_addr` and the two plain subtractions `region.len() - start`, `count - total`
    are all covered. -/
theorem loop_no_panic {σ : Type} (P : GMem → Prop)
    (f : GMem → σ → Nat → Nat → Nat → Nat → GMem × σ × Res Nat) (count addr : Nat)
    (hwf : ∀ m, P m → WF m)
    (hstep : ∀ (m : GMem) (st : σ) (total len start i : Nat) (r : Region), P m →
      m[i]? = some r → start < r.len → total < count →
      P (f m st total len start i).1 ∧ (f m st total len start i).2.2 ≠ .panic) :
    ∀ (n : Nat) (m : GMem) (st : σ) (cur total : Nat), P m → total < count → count - total = n →
      (GMem.tryAccessLoop f count addr m st cur total).2.2 ≠ .panic := by
  intro n
  induction n using Nat.strongRecOn with
  | _ n ih =>
    intro m st cur total hP ht hn
    have h := hwf m hP
    rcases mapped_or_not m cur with ⟨i, r, hi, hin⟩ | hun
    · rw [GMem.tryAccessLoop, findRegion_of_getElem? h hi hin]
      simp only [hi, Region.toRegionAddr_eq hin]
      have hcond : ¬ (r.len < cur - r.start ∨ count < total) := by omega
      rw [if_neg hcond]
      obtain ⟨hkeep, hnp⟩ := hstep m st total (min (r.len - (cur - r.start)) (count - total))
        (cur - r.start) i r hP hi (by omega) ht
      rcases hfe : f m st total (min (r.len - (cur - r.start)) (count - total)) (cur - r.start) i
        with ⟨m1, st1, res⟩
      rw [hfe] at hkeep hnp
      cases res with
      | err e => simp
      | panic => exact absurd rfl hnp
      | ok k =>
        cases k with
        | zero => simp
        | succ k =>
          simp only
          by_cases hU : total + (k + 1) < U
          · rw [if_pos hU]
            by_cases hlt : total + (k + 1) < count
            · rw [if_pos hlt]
              split
              · exact ih (count - (total + (k + 1))) (by omega) m1 st1 _ _ hkeep hlt rfl
              · split <;> simp
            · rw [if_neg hlt]
              split <;> simp
          · rw [if_neg hU]; simp
    · rw [loop_unmapped f h count addr st total hun]
      split <;> simp

theorem tryAccess_no_panic {σ : Type} (P : GMem → Prop)
    (f : GMem → σ → Nat → Nat → Nat → Nat → GMem × σ × Res Nat) (count addr : Nat)
    (hwf : ∀ m, P m → WF m)
    (hstep : ∀ (m : GMem) (st : σ) (total len start i : Nat) (r : Region), P m →
      m[i]? = some r → start < r.len → total < count →
      P (f m st total len start i).1 ∧ (f m st total len start i).2.2 ≠ .panic)
    (m : GMem) (st : σ) (hP : P m) : (GMem.tryAccess f m st count addr).2.2 ≠ .panic := by
  unfold GMem.tryAccess
  by_cases h0 : count = 0
  · rw [if_pos h0]; simp
  · rw [if_neg h0]
    exact loop_no_panic P f count addr hwf hstep count m st addr 0 hP (by omega) rfl

theorem mapErr_ne_panic {α : Type} {x : Res α} (h : x ≠ .panic) (f : Err → Err) :
    x.mapErr f ≠ .panic := by
  cases x <;> simp_all [Res.mapErr]

/-- the reader callback of `read_volatile_from` keeps `GWF` and never panics — any reader -/
theorem rvcb_safe (count : Nat) (m : GMem) (src : Reader) (total len start i : Nat) (r : Region)
    (h : GWF m) (hi : m[i]? = some r) (_hs : start < r.len) (_ht : total < count) :
    GWF (C14g.rvcb m src total len start i).1 ∧ (C14g.rvcb m src total len start i).2.2 ≠ .panic := by
  have hr := h.regWF hi
  obtain ⟨m', r', res, hcall, hnp, hk⟩ := slice_readVolatileFrom_safe r.mem (rootSlice r) start src
    len hr.inv (C14g.rootSlice_inB r) hr.len_lt
  have hcb : C14g.rvcb m src total len start i =
      (m.set i { r with mem := m' }, r', res.mapErr Res.toGuestErr) := by
    unfold C14g.rvcb
    simp only [hi, C14g.Region.readVolatileFrom_eq r hr.len_lt, hcall]
    rfl
  rw [hcb]
  exact ⟨h.set hi (key_with_mem r hk.len hk.base) hk.bm, mapErr_ne_panic hnp _⟩

/-- the writer callback of `write_volatile_to` leaves the memory alone and never panics -/
theorem wvcb_safe (count : Nat) (m : GMem) (dst : Writer) (total len start i : Nat) (r : Region)
    (h : GWF m) (hi : m[i]? = some r) (_hs : start < r.len) (_ht : total < count) :
    GWF (C14g.wvcb m dst total len start i).1 ∧ (C14g.wvcb m dst total len start i).2.2 ≠ .panic := by
  have hr := h.regWF hi
  have hnp := slice_writeAllVolatileTo_safe r.mem (rootSlice r) start dst len (C14g.rootSlice_inB r)
  unfold C14g.wvcb
  simp only [hi, C14g.Region.writeAllVolatileTo_eq r hr.len_lt]
  rcases hw : (rootSlice r).writeAllVolatileTo r.mem start dst len with ⟨w1, res1⟩
  rw [hw] at hnp
  cases res1 with
  | panic => exact absurd rfl hnp
  | err e => exact ⟨h, by simp [Res.mapErr]⟩
  | ok u => exact ⟨h, by simp [Res.mapErr]⟩

theorem np {α : Type} {x : Res α} (h : x ≠ .panic) : (void x).isPanic = false := by
  rw [void_isPanic]; exact (isPanic_false_iff x).2 h

/-! ## 3. family 1: the dirty bitmap (`AtomicBitmap`, `BaseSlice`) -/

/-- every query / update of the tracking bitmap, with its (guest-derived) operands -/
inductive BitmapReq where
  | mark (start len : Nat)          -- `set_addr_range`
  | clear (start len : Nat)         -- `reset_addr_range`
  | setBit (i : Nat)
  | resetBit (i : Nat)
  | isBitSet (i : Nat)
  | isAddrSet (a : Nat)
  | markVia (base off len : Nat)    -- `BaseSlice::mark_dirty` (`wrapping_add`)
  | dirtyVia (base off : Nat)       -- `BaseSlice::dirty_at`
  deriving Repr, DecidableEq

def runBitmap (b : ABitmap) : BitmapReq → Res Unit
  | .mark start len => void (b.setResetAddrRange start len true)
  | .clear start len => void (b.setResetAddrRange start len false)
  | .setBit i => void (b.setResetBit i true)
  | .resetBit i => void (b.setResetBit i false)
  | .isBitSet i => void (b.isBitSet i)
  | .isAddrSet a => void (b.isAddrSet a)
  | .markVia base off len => void (markVia b base off len)
  | .dirtyVia base off => void (dirtyVia b base off)

/-- **C07 `no_panic_bitmap`.**  Under the representation invariant of `AtomicBitmap` (what
    `new` establishes and every operation keeps, `C09.inv_history`) no bitmap entry point panics,
    for ANY operands — no bound whatsoever (offsets beyond the tracked range are ignored,
    `start + len - 1` saturates, the slice offset wraps). -/
theorem no_panic_bitmap (b : ABitmap) (h : C09.Inv b) :
    ∀ req : BitmapReq, (runBitmap b req).isPanic = false := by
  intro req
  cases req with
  | mark start len => obtain ⟨_, e⟩ := C09.mark_ok b h start len; exact np (by rw [e]; simp)
  | clear start len => obtain ⟨_, e⟩ := C09.clear_ok b h start len; exact np (by rw [e]; simp)
  | setBit i => obtain ⟨_, e⟩ := C09.bit_ok b h i true; exact np (by rw [e]; simp)
  | resetBit i => obtain ⟨_, e⟩ := C09.bit_ok b h i false; exact np (by rw [e]; simp)
  | isBitSet i => obtain ⟨_, e⟩ := C09.isBitSet_ok b h i; exact np (by rw [e]; simp)
  | isAddrSet a => obtain ⟨_, e⟩ := C09.isAddrSet_ok b h a; exact np (by rw [e]; simp)
  | markVia base off len =>
    obtain ⟨_, e, _⟩ := C09.markVia_bits b h base off len; exact np (by rw [e]; simp)
  | dirtyVia base off =>
    obtain ⟨_, e⟩ := C09.isAddrSet_ok b h ((base + off) % U)
    exact np (by rw [C09.dirtyVia_spec, e]; simp)

/-! ## 4. family 2: a `VolatileSlice` inside a container -/

/-- every access / derivation entry point of a `VolatileSlice`, with its operands -/
inductive SliceReq where
  | subslice (off cnt : Nat)
  | offset (cnt : Nat)
  | splitAt (mid : Nat)
  | getRef (off : Nat) (t : Ty)
  | getArrayRef (off n : Nat) (t : Ty)
  | alignedRef (off : Nat) (t : Ty)           -- `aligned_as_ref/_mut`, `get_atomic_ref`
  | write (buf : List UInt8) (addr : Nat)
  | read (len addr : Nat)
  | writeSlice (buf : List UInt8) (addr : Nat)
  | readSlice (len addr : Nat)
  | writeObj (val : List UInt8) (addr : Nat)
  | readObj (t : Ty) (addr : Nat)
  | store (val : List UInt8) (t : Ty) (addr : Nat)
  | load (t : Ty) (addr : Nat)
  | copyTo (t : Ty) (blen : Nat)
  | copyFrom (t : Ty) (blen : Nat) (buf : List UInt8)
  | readVolatileFrom (addr : Nat) (r : Reader) (count : Nat)
  | readExactVolatileFrom (addr : Nat) (r : Reader) (count : Nat)
  | writeVolatileTo (addr : Nat) (w : Writer) (count : Nat)
  | writeAllVolatileTo (addr : Nat) (w : Writer) (count : Nat)
  deriving Repr, DecidableEq

def runSlice (m : Mem) (s : VSlice) : SliceReq → Res Unit
  | .subslice off cnt => void (s.subslice off cnt)
  | .offset cnt => void (s.offset cnt)
  | .splitAt mid => void (s.splitAt mid)
  | .getRef off t => void (s.getRef off t)
  | .getArrayRef off n t => void (s.getArrayRef off n t)
  | .alignedRef off t => void (s.alignedRef off t)
  | .write buf addr => void (s.write m buf addr)
  | .read len addr => void (s.read m len addr)
  | .writeSlice buf addr => (s.writeSlice m buf addr).2
  | .readSlice len addr => void (s.readSlice m len addr)
  | .writeObj val addr => (s.writeObj m val addr).2
  | .readObj t addr => void (s.readObj m t addr)
  | .store val t addr => void (s.store m val t addr)
  | .load t addr => void (s.load m t addr)
  | .copyTo t blen => void (s.copyTo m t blen)
  | .copyFrom t blen buf => void (s.copyFrom m t blen buf)
  | .readVolatileFrom addr r count => void (s.readVolatileFrom m addr r count).2.2
  | .readExactVolatileFrom addr r count => (s.readExactVolatileFrom m addr r count).2.2
  | .writeVolatileTo addr w count => void (s.writeVolatileTo m addr w count).2
  | .writeAllVolatileTo addr w count => (s.writeAllVolatileTo m addr w count).2

/-- The only guards in this family are on the two typed bulk copies `copy_to::<T>` /
    `copy_from::<T>`, and neither is guest data:
    * `s.size ≤ isize::MAX` — a property of the slice (every Rust allocation satisfies it);
    * for a zero-sized `T`, `blen ≤ isize::MAX` — `blen` is the length of a VMM-side `&[T]`
      buffer chosen by the VMM; with a ZST and `blen > isize::MAX` the crate's
      `get_array_ref(0, blen).unwrap()` does panic (`oversized_zst_guard`).
    Every other request — every address, offset, count, length, type, stream kind and fault
    script — is unconstrained. -/
def SliceReq.Valid (s : VSlice) : SliceReq → Prop
  | .copyTo t blen => s.size ≤ ISIZE_MAX ∧ (t.size = 0 → blen ≤ ISIZE_MAX)
  | .copyFrom t blen _ => s.size ≤ ISIZE_MAX ∧ (t.size = 0 → blen ≤ ISIZE_MAX)
  | _ => True

/-- **C07 `no_panic_slice`.**  For a slice inside a container whose tracking bitmap (if any) is
    sane (`BmInv`, `MemWF`, `Inside`: what the constructors give and every operation keeps,
    `C04.history`), no entry point panics for ANY operand values: a misfit is an error value
    (`OutOfBounds`, `Overflow`, `TooBig`, `Misaligned`, `PartialBuffer`, an I/O error), never a
    panic and — `Mem.readAt/writeAt` report an access outside the container as `panic` — never an
    out-of-bounds access.  Streams: any kind (also raw descriptors), any fault script. -/
theorem no_panic_slice (m : Mem) (s : VSlice) (hinv : DataLemmas.BmInv m) (hwf : C04.MemWF m)
    (hin : C04.Inside m s) :
    ∀ req : SliceReq, req.Valid s → (runSlice m s req).isPanic = false := by
  have hsz := hin.size_lt hwf
  have hinB : InB m s := hin
  intro req hv
  cases req with
  | subslice off cnt => exact np (subslice_ne_panic s off cnt)
  | offset cnt => exact np (offset_ne_panic s cnt)
  | splitAt mid => exact np (splitAt_ne_panic s mid)
  | getRef off t => exact np (getRef_ne_panic s off t)
  | getArrayRef off n t => exact np (getArrayRef_ne_panic s off n t)
  | alignedRef off t => exact np (alignedRef_ne_panic s off t)
  | write buf addr => exact np (C04.write_no_panic m s buf addr hinv hwf hin)
  | read len addr => exact np (C04.read_no_panic m s len addr hwf hin)
  | writeSlice buf addr =>
    exact (isPanic_false_iff _).2 (C04.writeSlice_no_panic m s buf addr hinv hwf hin)
  | readSlice len addr => exact np (C04.readSlice_no_panic m s len addr hwf hin)
  | writeObj val addr =>
    exact (isPanic_false_iff _).2 (C04.writeSlice_no_panic m s val addr hinv hwf hin)
  | readObj t addr => exact np (C04.readSlice_no_panic m s t.size addr hwf hin)
  | store val t addr => exact np (C04.store_no_panic m s val t addr hinv hwf hin)
  | load t addr => exact np (C04.load_no_panic m s t addr hwf hin)
  | copyTo t blen =>
    exact np (by rw [C04.copyTo_ok m s t blen hwf hin hv.1 hv.2]; simp)
  | copyFrom t blen buf =>
    obtain ⟨_, e, _⟩ := C04.copyFrom_ok m s t blen buf hinv hwf hin hv.1 hv.2
    exact np (by rw [e]; simp)
  | readVolatileFrom addr r count =>
    obtain ⟨_, _, _, e, hnp, _⟩ := slice_readVolatileFrom_safe m s addr r count hinv hinB hsz
    exact np (by rw [e]; exact hnp)
  | readExactVolatileFrom addr r count =>
    obtain ⟨_, _, _, e, hnp, _⟩ := slice_readExactVolatileFrom_safe m s addr r count hinv hinB
    exact (isPanic_false_iff _).2 (by
      show (s.readExactVolatileFrom m addr r count).2.2 ≠ .panic
      rw [e]; exact hnp)
  | writeVolatileTo addr w count => exact np (slice_writeVolatileTo_safe m s addr w count hinB hsz)
  | writeAllVolatileTo addr w count =>
    exact (isPanic_false_iff _).2 (slice_writeAllVolatileTo_safe m s addr w count hinB)

/-! ## 5. family 3: guest memory (`GuestMemoryMmap`, `Bytes<GuestAddress>`) -/

/-- every query / access entry point of `GuestMemory`, with its guest-controlled operands -/
inductive GuestReq where
  | findRegion (a : Nat)
  | toRegionAddr (a : Nat)
  | addressInRange (a : Nat)
  | checkAddress (a : Nat)
  | checkRange (base len : Nat)
  | checkedOffset (base off : Nat)
  | lastAddr
  | getHostAddress (a : Nat)
  | getSlice (a cnt : Nat)
  | write (buf : List UInt8) (a : Nat)
  | read (len a : Nat)
  | writeSlice (buf : List UInt8) (a : Nat)
  | readSlice (len a : Nat)
  | writeObj (val : List UInt8) (a : Nat)
  | readObj (t : Ty) (a : Nat)
  | store (val : List UInt8) (t : Ty) (a : Nat)
  | load (t : Ty) (a : Nat)
  | readVolatileFrom (a : Nat) (r : Reader) (count : Nat)
  | readExactVolatileFrom (a : Nat) (r : Reader) (count : Nat)
  | writeVolatileTo (a : Nat) (w : Writer) (count : Nat)
  | writeAllVolatileTo (a : Nat) (w : Writer) (count : Nat)
  deriving Repr, DecidableEq

def runGuest (m : GMem) : GuestReq → Res Unit
  | .findRegion a => void (m.findRegion a)
  | .toRegionAddr a => void (m.toRegionAddr a)
  | .addressInRange a => void (m.addressInRange a)
  | .checkAddress a => void (m.checkAddress a)
  | .checkRange base len => void (m.checkRange base len)
  | .checkedOffset base off => void (m.checkedOffset base off)
  | .lastAddr => void m.lastAddr
  | .getHostAddress a => void (m.getHostAddress a)
  | .getSlice a cnt => void (m.getSlice a cnt)
  | .write buf a => void (m.write buf a).2
  | .read len a => void (m.read len a)
  | .writeSlice buf a => (m.writeSlice buf a).2
  | .readSlice len a => void (m.readSlice len a)
  | .writeObj val a => (m.writeObj val a).2
  | .readObj t a => void (m.readObj t a)
  | .store val t a => void (m.store val t a)
  | .load t a => void (m.load t a)
  | .readVolatileFrom a r count => void (m.readVolatileFrom a r count).2.2
  | .readExactVolatileFrom a r count => (m.readExactVolatileFrom a r count).2.2
  | .writeVolatileTo a w count => void (m.writeVolatileTo a w count).2
  | .writeAllVolatileTo a w count => (m.writeAllVolatileTo a w count).2

/-- The only hypothesis on operands: a buffer length / `check_range` length is a `usize` value
    (`< 2^64`) — a Rust slice cannot be longer; the loop lemmas of C02 / C03 discharge
    `total.checked_add(len)` with it.  Addresses, offsets, counts of the stream forms, types,
    stream kinds and fault scripts are unconstrained. -/
def GuestReq.Valid : GuestReq → Prop
  | .checkRange _ len => len < U
  | .write buf _ => buf.length < U
  | .read len _ => len < U
  | .writeSlice buf _ => buf.length < U
  | .readSlice len _ => len < U
  | .writeObj val _ => val.length < U
  | .readObj t _ => t.size < U
  | _ => True

theorem guest_write_np (m : GMem) (h : GWF m) (buf : List UInt8) (hl : buf.length < U) (a : Nat) :
    (m.write buf a).2 ≠ .panic := by
  by_cases hb : buf = []
  · subst hb; rw [C18g.write_empty]; simp
  · obtain ⟨h1, h2⟩ := C03.write_flat m h buf hb hl a
    by_cases hm : mapped m a
    · obtain ⟨m', e, _⟩ := h2 hm; rw [e]; simp
    · rw [h1 hm]; simp

theorem guest_read_np (m : GMem) (h : GWF m) (len : Nat) (hl : len < U) (a : Nat) :
    m.read len a ≠ .panic := by
  by_cases h0 : len = 0
  · subst h0; rw [C18g.read_zero]; simp
  · exact (C03.read_err_iff m h len (by omega) hl a).2.2

theorem guest_writeSlice_np (m : GMem) (h : GWF m) (buf : List UInt8) (hl : buf.length < U)
    (a : Nat) : (m.writeSlice buf a).2 ≠ .panic := by
  have hw := guest_write_np m h buf hl a
  unfold GMem.writeSlice
  rcases hwe : m.write buf a with ⟨m', res⟩
  rw [hwe] at hw
  cases res with
  | ok n => simp only; split <;> simp
  | err e => simp
  | panic => exact absurd rfl hw

theorem guest_readSlice_np (m : GMem) (h : GWF m) (len : Nat) (hl : len < U) (a : Nat) :
    m.readSlice len a ≠ .panic := by
  have hr := guest_read_np m h len hl a
  unfold GMem.readSlice
  cases hre : m.read len a with
  | ok d => simp only [Res.bind_ok]; split <;> simp
  | err e => simp
  | panic => exact absurd hre hr

theorem guest_readVolatileFrom_np (m : GMem) (h : GWF m) (a : Nat) (r : Reader) (count : Nat) :
    (m.readVolatileFrom a r count).2.2 ≠ .panic := by
  rw [C14g.readVolatileFrom_eq_loop]
  exact tryAccess_no_panic GWF C14g.rvcb count a (fun _ hh => hh.1)
    (fun m st total len start i r hP hi hs ht => rvcb_safe count m st total len start i r hP hi hs ht)
    m r h

theorem guest_writeVolatileTo_np (m : GMem) (h : GWF m) (a : Nat) (w : Writer) (count : Nat) :
    (m.writeVolatileTo a w count).2 ≠ .panic := by
  rw [C14g.writeVolatileTo_eq_loop]
  exact tryAccess_no_panic GWF C14g.wvcb count a (fun _ hh => hh.1)
    (fun m st total len start i r hP hi hs ht => wvcb_safe count m st total len start i r hP hi hs ht)
    m w h

/-- **C07 `no_panic_guest`.**  On a well-formed guest memory (`GWF`: what `from_regions` /
    `insert_region` / `remove_region` produce from non-empty regions — `C10.history` — with sane
    containers) no entry point panics, for ANY guest address, offset, count, object type, and —
    for the stream forms — any reader / writer kind and any fault script.  In particular the
    indexing `regions[x - 1]`, the plain `len - 1` / `start + len - 1` of `last_addr`, the
    `unwrap` of `to_region_addr`, and `region.len() - start` / `count - total` in `try_access`
    never reach their failure branch. -/
theorem no_panic_guest (m : GMem) (h : GWF m) :
    ∀ req : GuestReq, req.Valid → (runGuest m req).isPanic = false := by
  intro req hv
  cases req with
  | findRegion a => exact np (C02.findRegion_no_panic m h.1 a).1
  | toRegionAddr a =>
    obtain ⟨_, e⟩ := (C02.toRegionAddr_spec m h.1 a).2.2; exact np (by rw [e]; simp)
  | addressInRange a => exact np (by rw [C02.addressInRange_spec m h.1 a]; simp)
  | checkAddress a => exact np (by rw [C02.checkAddress_spec m h.1 a]; simp)
  | checkRange base len =>
    by_cases h0 : len = 0
    · subst h0
      exact np (x := m.checkRange base 0) (by rw [C02.checkRange_zero]; simp)
    · obtain ⟨_, e⟩ := (C02.checkRange_spec m h.1 base len hv (by omega)).2
      exact np (by rw [e]; simp)
  | checkedOffset base off => exact np (by rw [C02.checkedOffset_eq m h.1 base off]; simp)
  | lastAddr => obtain ⟨_, e⟩ := C02.lastAddr_no_panic m h.1; exact np (by rw [e]; simp)
  | getHostAddress a => exact np (C02.getHostAddress_spec m h.1 a).2.2
  | getSlice a cnt =>
    rcases C02.getSlice_cases m h.1 a cnt with ⟨_, _, e⟩ | ⟨_, e⟩ | ⟨_, e⟩ <;>
      exact np (by rw [e]; simp)
  | write buf a => exact np (guest_write_np m h buf hv a)
  | read len a => exact np (guest_read_np m h len hv a)
  | writeSlice buf a => exact (isPanic_false_iff _).2 (guest_writeSlice_np m h buf hv a)
  | readSlice len a => exact np (guest_readSlice_np m h len hv a)
  | writeObj val a => exact (isPanic_false_iff _).2 (guest_writeSlice_np m h val hv a)
  | readObj t a => exact np (guest_readSlice_np m h t.size hv a)
  | store val t a =>
    obtain ⟨h1, h2, h3⟩ := C03.store_flat m h val t a
    by_cases hob : C03.ObjAt m t a
    · obtain ⟨_, e, _⟩ := h3 hob; exact np (by rw [e]; simp)
    · by_cases hm : mapped m a
      · exact np (by rw [h2 hm hob]; simp)
      · exact np (by rw [h1 hm]; simp)
  | load t a =>
    obtain ⟨h1, h2, h3⟩ := C03.load_flat m h t a
    by_cases hob : C03.ObjAt m t a
    · exact np (by rw [h3 hob]; simp)
    · by_cases hm : mapped m a
      · exact np (by rw [h2 hm hob]; simp)
      · exact np (by rw [h1 hm]; simp)
  | readVolatileFrom a r count => exact np (guest_readVolatileFrom_np m h a r count)
  | readExactVolatileFrom a r count =>
    apply (isPanic_false_iff _).2
    have hr := guest_readVolatileFrom_np m h a r count
    show (m.readExactVolatileFrom a r count).2.2 ≠ .panic
    unfold GMem.readExactVolatileFrom
    rcases hre : m.readVolatileFrom a r count with ⟨m', s', res⟩
    rw [hre] at hr
    cases res with
    | ok n => simp only; split <;> simp
    | err e => simp
    | panic => exact absurd rfl hr
  | writeVolatileTo a w count => exact np (guest_writeVolatileTo_np m h a w count)
  | writeAllVolatileTo a w count =>
    apply (isPanic_false_iff _).2
    have hr := guest_writeVolatileTo_np m h a w count
    show (m.writeAllVolatileTo a w count).2 ≠ .panic
    unfold GMem.writeAllVolatileTo
    rcases hre : m.writeVolatileTo a w count with ⟨w', res⟩
    rw [hre] at hr
    cases res with
    | ok n => simp only; split <;> simp
    | err e => simp
    | panic => exact absurd rfl hr

/-! ## 6. the documented, program-logic panics — stated exactly

  These are the crate's documented `assert!`s on a VMM-supplied *index* (not a guest address):
  `VolatileArrayRef::ref_at / load / store` panic iff `index ≥ len`.  They are outside the three
  families above (no guest-controlled operand reaches them: the guest-facing entry points take
  addresses and lengths, and a misfit there is an error value). -/

/-- **C07 `documented_panics`** (re-export of `C01.refAt_panics_iff`, `C04.arr_store_panic_iff`,
    `C04.arr_load_panic_iff`): the index operations of `VolatileArrayRef` panic exactly for an
    index that is not below the element count, and for no other reason. -/
theorem documented_panics (m : Mem) (a : VArr) (i : Nat) (val : List UInt8)
    (hinv : DataLemmas.BmInv m) (hwf : C04.MemWF m) (hin : C04.AInside m a)
    (hacc : (C01.Acc.ar a).WF) :
    (a.refAt i = .panic ↔ a.nelem ≤ i) ∧
    (a.store m i val = .panic ↔ a.nelem ≤ i) ∧
    (a.load m i = .panic ↔ a.nelem ≤ i) :=
  ⟨C01.refAt_panics_iff a hacc i, C04.arr_store_panic_iff m a i val hinv hwf hin,
   C04.arr_load_panic_iff m a i hwf hin⟩

/-! ## 7. guards that are NOT guest-controlled, as explicit theorems -/

/-- **`enlarge_guard`**: `AtomicBitmap::enlarge(additional)` — called by the VMM on memory
    hot-plug with a VMM-chosen size — panics (in a build with overflow checks) iff
    `byte_size + additional` does not fit a `usize`, and for no other reason.
    (`C09.enlarge_overflow`, `C09.enlarge_spec`.) -/
theorem enlarge_guard (b : ABitmap) (add : Nat) :
    b.enlarge add = .panic ↔ U ≤ b.byteSize + add := by
  constructor
  · intro h
    by_cases hlt : b.byteSize + add < U
    · simp [ABitmap.enlarge, addP, hlt] at h
    · omega
  · exact C09.enlarge_overflow b add

/-- when it fits, `enlarge` succeeds, keeps the invariant and every mark (`C09.enlarge_spec`) -/
theorem enlarge_fits (b : ABitmap) (h : C09.Inv b) (add : Nat) (hfit : b.byteSize + add < U) :
    ∃ b', b.enlarge add = .ok b' ∧ C09.Inv b' ∧ ∀ p, b'.bit p = b.bit p := by
  obtain ⟨b', e, hi, _, _, _, hb⟩ := C09.enlarge_spec b h add hfit
  exact ⟨b', e, hi, hb⟩

/-- **`zero_len_region_guard`**: `GuestMemoryRegion::last_addr` is `start + (len - 1)` with plain
    arithmetic: it panics exactly for an empty region or a region ending beyond `2^64 - 1`.
    Both are excluded by `WF` (a mapping of length 0 cannot be created, `GuestRegionMmap::new`
    checks `start.checked_add(len)`); the model's constructors would accept an empty region and
    then `from_regions` panics: `C10.zero_len_panics`. -/
theorem zero_len_region_guard (r : Region) :
    r.lastAddr = .panic ↔ r.len = 0 ∨ U ≤ r.start + (r.len - 1) := by
  unfold Region.lastAddr subP addP
  by_cases h1 : 1 ≤ r.len
  · by_cases h2 : r.start + (r.len - 1) < U
    · simp [h1, h2]; omega
    · simp [h1, h2]; omega
  · simp [h1]; omega

theorem zero_len_region_example :
    GMem.fromRegions [C10.reg 7 0 9, C10.reg 8 1 1] = .panic := C10.zero_len_panics

/-- **`oversized_zst_guard`** (`C04.copyTo_zst_too_big`): `copy_to::<T>` for a zero-sized `T`
    into a VMM buffer of more than `isize::MAX` elements panics
    (`get_array_ref(0, buf.len()).unwrap()` on `TooBig`).  The buffer length is chosen by the VMM;
    this is the guard `SliceReq.Valid` carries. -/
theorem oversized_zst_guard (m : Mem) (s : VSlice) (t : Ty) (blen : Nat) (h0 : t.size = 0)
    (hb : ISIZE_MAX < blen) : s.copyTo m t blen = .panic :=
  C04.copyTo_zst_too_big m s t blen h0 hb

/-! ## 8. build profiles

  The model's plain `+ - * /` primitives (`addP subP mulP divP`, `Res.unwrap`, indexing) take
  the *checked* reading: overflow / `None` / out of range is `.panic`.  "The two build profiles
  agree on every entry point" is therefore the statement that no such primitive reaches its
  failure branch, i.e. exactly `no_panic_bitmap`, `no_panic_slice`, `no_panic_guest`.

  The only model primitives that take the profile as a *parameter* are
  `Addr.uncheckedAdd / uncheckedSub / uncheckedAlignUp chk` (address.rs) and the pair
  `ABitmap.enlarge` / `ABitmap.enlargeUnchecked`.  None of them is called by any entry point of
  the three families: `runBitmap`, `runSlice`, `runGuest` take no profile argument.  For these
  primitives themselves: -/

/-- **C07 `profiles_agree`**: whenever the mathematical result fits, the checked and the
    unchecked build compute the same thing (and otherwise they differ exactly as
    `C19.uncheckedAdd_overflow_checked/_wrapping`, `enlarge_guard` say). -/
theorem profiles_agree (a b : Word) :
    (a.toNat + b.toNat < U → Addr.uncheckedAdd true a b = Addr.uncheckedAdd false a b) ∧
    (b.toNat ≤ a.toNat → Addr.uncheckedSub true a b = Addr.uncheckedSub false a b) ∧
    (∀ p : Word, C19.IsPow2 p → a.toNat + p.toNat - 1 < U →
      Addr.uncheckedAlignUp true a p = Addr.uncheckedAlignUp false a p) ∧
    (∀ (bm : ABitmap) (add : Nat), bm.byteSize + add < U →
      bm.enlarge add = .ok (bm.enlargeUnchecked add)) := by
  have hadd : ∀ x y : Word, x.toNat + y.toNat < U →
      Addr.uncheckedAdd true x y = Addr.uncheckedAdd false x y := by
    intro x y h; simp [Addr.uncheckedAdd, h]
  refine ⟨hadd a b, ?_, ?_, ?_⟩
  · intro h; simp [Addr.uncheckedSub, h]
  · intro p hp hfit
    obtain ⟨k, _, hk⟩ := id hp
    have hpred := C19.toNat_pred_of_pow2 hk
    have hpos : 0 < 2 ^ k := Nat.two_pow_pos k
    have h0 := hp.ne_zero
    unfold Addr.uncheckedAlignUp
    rw [if_neg (fun h => h0 h.1), if_neg (fun h => h0 h.1)]
    simp only
    rw [hadd a (p - 1) (by rw [hpred]; omega)]
  · intro bm add h
    simp [ABitmap.enlarge, ABitmap.enlargeUnchecked, addP, wrappingAdd, h, Nat.mod_eq_of_lt h]

/-! ## 9. termination ("does not loop without end")

  Termination is by construction: every function of the model is a total Lean function, accepted
  by the kernel with an explicit measure —
    * `GMem.tryAccessLoop`   : `termination_by count - total` (each continuing iteration has
                               `total + n < count` with `n ≥ 1`);
    * `ABitmap.rangeSteps`   : `termination_by size - n`;
    * `copyLoop`             : `termination_by left` (`left ≥ w > 0`);
    * `Reader.readRetry`, `Writer.writeRetry` (`retry_eintr!`): `termination_by script.length`
                               (each retry consumes one script entry; an exhausted script never
                               interrupts);
    * `Reader.readExactLoop`, `Writer.writeAllLoop` : structural recursion on `fuel`, running out
                               of fuel being reported as `.panic`; the two theorems below show that
                               the fuel `size + 1` the model passes never runs out: every
                               continuing iteration consumed ≥ 1 byte;
    * everything else is non-recursive or structural on a list (`runAll`, `validatePairs`,
      `insertSorted`, `List.foldlM` in `last_addr`).
  Hence for every request of the three families the run is a finite computation whose result is
  `ok` or `err` (`no_panic_*`). -/

/-- **`readExactLoop_fuel`** (generalises `C14.readExactLoop_fuel` to every reader kind and to
    containers ending exactly at `2^64`): the fuel never runs out. -/
theorem readExactLoop_fuel (r : Reader) (m : Mem) (p : VSlice) (hbm : BmInv m) (hin : InB m p) :
    (r.readExactLoop (p.size + 1) m p).2.2 ≠ .panic := by
  obtain ⟨_, _, _, e, hnp, _⟩ := readExactLoop_safe (p.size + 1) r m p hbm hin (Nat.lt_succ_self _)
  rw [e]; exact hnp

/-- **`writeAllLoop_fuel`**: the same for the default `write_all_volatile` loop, every sink. -/
theorem writeAllLoop_fuel (w : Writer) (m : Mem) (p : VSlice) (hin : InB m p) :
    (w.writeAllLoop (p.size + 1) m p).2 ≠ .panic :=
  writeAllLoop_safe (p.size + 1) w m p hin (Nat.lt_succ_self _)

/-- the original statement of C14, for reference -/
theorem readExactLoop_fuel_C14 (r : Reader) (m : Mem) (p : VSlice) (hk : r.kind ≠ .fd)
    (hbm : BmInv m) (hin : InB m p) (hU : m.base + m.bytes.length < U) :
    (r.readExactLoop (p.size + 1) m p).2.2 ≠ .panic := C14.readExactLoop_fuel r m p hk hbm hin hU

/-! ## 10. the hypotheses are needed / non-vacuity -/

/-- without the bitmap invariant a plain in-range one-byte write can panic
    (`C04.write_needs_BmInv`): `BmInv` is what the constructors establish and all operations
    keep, not a restriction on the guest — and it cannot be dropped from `no_panic_slice` -/
theorem bitmap_invariant_needed :
    (runSlice ⟨0x1003, List.replicate 13 0, some C04.badBm⟩ (VSlice.mk 0x1003 13 0)
      (.write [7] 0)).isPanic = true := by
  show (void ((VSlice.mk 0x1003 13 0).write ⟨0x1003, List.replicate 13 0, some C04.badBm⟩ [7]
    0)).isPanic = true
  rw [C04.write_needs_BmInv]; rfl

/-- the families are inhabited by requests far outside every bound: all of these are errors or
    `Ok`, none a panic -/
example : (runGuest C03.exMem (.readSlice 9 0xffff_ffff_ffff_fff0)).isPanic = false :=
  no_panic_guest _ C03.exMem_GWF _ (by show 9 < U; decide)
example : (runGuest C03.exMem (.store [1, 2, 3, 4] ⟨4, 4⟩ (U - 1))).isPanic = false :=
  no_panic_guest _ C03.exMem_GWF _ trivial
example : (runGuest C03.exMem (.readExactVolatileFrom 0x1002
    ⟨.fd, [1, 2, 3, 4, 5, 6, 7, 8, 9], 0, [.short 1, .eintr, .fail]⟩ (U + 5))).isPanic = false :=
  no_panic_guest _ C03.exMem_GWF _ trivial

/-! ### `alignment` (volatile_memory.rs) — defect D8 and its repair (2fc7148)

`alignment(addr)` was `addr & (!addr + 1)`: a plain `+`, which overflows exactly when `addr = 0`.
A zero-length access at offset 0 of an on-demand Xen grant region reaches it with the region's null
base pointer.  After the repair it is `addr & addr.wrapping_neg()`, which is what the model's
`alignment` on `BitVec 64` computes for every word: total, no overflow branch left. -/
/-- the function as it stood: `!addr` on a 64-bit word is `U - 1 - addr`; then a plain `+ 1` -/
def alignmentBeforeFix (a : Nat) : Res Nat := do
  let n ← addP (U - 1 - a) 1
  pure (a &&& n)

theorem alignmentBeforeFix_panics_iff (a : Nat) (h : a < U) : alignmentBeforeFix a = .panic ↔ a = 0 := by
  unfold alignmentBeforeFix addP
  simp only [U] at *
  by_cases h0 : a = 0
  · subst h0; simp
  · have : 2 ^ 64 - 1 - a + 1 < 2 ^ 64 := by omega
    simp [this, h0]

/-- the repaired function wraps: at the null address it is 0 (so every width pass of
    `copy_slice_volatile` is skipped) and it never panics -/
theorem alignment_null : alignment 0 = 0 := by decide

theorem alignment_wraps (a : BitVec 64) : alignment a = a &&& (-a) := by
  unfold alignment; rw [BitVec.neg_eq_not_add]; rfl

/-- a copy of zero bytes issues no access whatever the two addresses are (null included) -/
theorem copyPass_zero (align w off : Nat) (hw : w > 0) : copyPass align w 0 off = ([], 0, off) := by
  unfold copyPass
  have h : copyLoop w 0 off = ([], 0, off) := by unfold copyLoop; simp
  split <;> simp [h]

theorem copyPlan_zero (src dst : BitVec 64) : copyPlan src dst 0 = [] := by
  simp [copyPlan, copyPass_zero]

#print axioms bitmap_invariant_needed
#print axioms no_panic_bitmap
#print axioms no_panic_slice
#print axioms no_panic_guest
#print axioms documented_panics
#print axioms enlarge_guard
#print axioms enlarge_fits
#print axioms zero_len_region_guard
#print axioms zero_len_region_example
#print axioms oversized_zst_guard
#print axioms profiles_agree
#print axioms readExactLoop_fuel
#print axioms writeAllLoop_fuel
#print axioms readExactLoop_fuel_C14
#print axioms loop_no_panic
#print axioms tryAccess_no_panic
#print axioms readVolatile_safe
#print axioms readRetry_safe
#print axioms readExactLoop_safe
#print axioms readExact_safe
#print axioms writeAll_safe
#print axioms slice_readVolatileFrom_safe
#print axioms slice_readExactVolatileFrom_safe
#print axioms slice_writeVolatileTo_safe
#print axioms slice_writeAllVolatileTo_safe
#print axioms rvcb_safe
#print axioms wvcb_safe

end C07
end VmMem
#print axioms VmMem.C07.alignmentBeforeFix_panics_iff
#print axioms VmMem.C07.alignment_null
#print axioms VmMem.C07.alignment_wraps
#print axioms VmMem.C07.copyPlan_zero
