/-
  VmMem.Props.C10 — building and editing the map: `GuestRegionMmap::new`,
  `from_arc_regions`, `insert_region`, `remove_region`; the old map persists and every
  map reachable by successful edits is well-formed.

  `WF`, `mapped`, `RegOk` are defined in `VmMem.Lemmas.GuestLemmas`.
  `RegOk r := 0 < r.len ∧ r.start + r.len < U` is what a region built by the safe
  constructor satisfies: `Region.new` checks the end (`new_some_iff`), and a mapping
  of length 0 cannot be created in the crate (mmap refuses it).  The model's
  `Region.new` itself does NOT refuse an empty `mem`; see `zero_len_*` at the end
  of the file for what the model does with such a region (why `0 < r.len` is a hypothesis).
-/
import VmMem.Lemmas.GuestLemmas
namespace VmMem
namespace C10
open GuestLemmas GMem

/-! ### 1. GuestRegionMmap::new -/

/-- a region whose end would exceed the address space is refused -/
theorem Region.new_some_iff (start : Nat) (mem : Mem) (id : Nat) :
    (∃ r, Region.new start mem id = some r) ↔ start + mem.bytes.length < U := by
  unfold Region.new checkedAdd
  by_cases h : start + mem.bytes.length < U <;> simp [h]

theorem Region.new_none_iff (start : Nat) (mem : Mem) (id : Nat) :
    Region.new start mem id = none ↔ U ≤ start + mem.bytes.length := by
  unfold Region.new checkedAdd
  by_cases h : start + mem.bytes.length < U <;> simp [h]; omega

theorem Region.new_eq_some {start : Nat} {mem : Mem} {id : Nat} {r : Region}
    (h : Region.new start mem id = some r) :
    r = { start := start, mem := mem, id := id } ∧ r.start + r.len < U := by
  unfold Region.new checkedAdd at h
  by_cases hlt : start + mem.bytes.length < U
  · simp [hlt] at h
    subst h
    exact ⟨rfl, hlt⟩
  · simp [hlt] at h

/-! ### 2. from_arc_regions -/

theorem fromRegions_nil : fromRegions [] = .ok (.error .noMemoryRegion) := rfl

/-- a successful result is the input list itself -/
theorem fromRegions_ok_same {rs rs' : GMem} (h : fromRegions rs = .ok (.ok rs')) : rs' = rs := by
  unfold fromRegions at h
  split at h
  · cases h
  · cases hv : validatePairs rs with
    | ok o =>
      rw [hv] at h
      cases o with
      | none => simp at h; exact h.symm
      | some e => simp at h
    | err e => rw [hv] at h; cases h
    | panic => rw [hv] at h; cases h

/-- accepted exactly when non-empty and well-formed -/
theorem fromRegions_ok_iff (rs : GMem) (hr : ∀ r ∈ rs, 0 < r.len ∧ r.start + r.len < U) :
    fromRegions rs = .ok (.ok rs) ↔ (rs ≠ [] ∧ WF rs) := by
  by_cases hne : rs = []
  · subst hne; simp [fromRegions_nil]
  · rw [fromRegions_of_ne_nil hne, ← validatePairs_none_iff rs hr]
    obtain ⟨o, ho, _⟩ := validatePairs_no_panic rs hr
    rw [ho]
    cases o with
    | none => simp [hne]
    | some e => simp [hne]

/-- under `hr` the constructor never panics, never reports `invalidGuestRegion`, and
    reports `noMemoryRegion` only for the empty list -/
theorem fromRegions_no_panic (rs : GMem) (hr : ∀ r ∈ rs, 0 < r.len ∧ r.start + r.len < U) :
    ∃ x, fromRegions rs = .ok x ∧ x ≠ .error .invalidGuestRegion ∧
      (x = .error .noMemoryRegion ↔ rs = []) := by
  by_cases hne : rs = []
  · subst hne; exact ⟨_, rfl, by simp, by simp⟩
  · rw [fromRegions_of_ne_nil hne]
    obtain ⟨o, ho, h1, h2⟩ := validatePairs_no_panic rs hr
    rw [ho]
    cases o with
    | none => exact ⟨_, rfl, by simp, by simp [hne]⟩
    | some e =>
      refine ⟨.error e, rfl, ?_, ?_⟩
      · intro h; injection h with h; subst h; exact h2 rfl
      · simp only [hne, iff_false]
        intro h; injection h with h; subst h; exact h1 rfl

/-- first offending adjacent pair, cause 1: `prev.start > next.start` → `unsorted`
    (checked before the overlap test) -/
theorem fromRegions_unsorted (pre : GMem) (prev next : Region) (post : GMem)
    (hwf : WF (pre ++ [prev])) (h : prev.start > next.start) :
    fromRegions (pre ++ prev :: next :: post) = .ok (.error .unsorted) := by
  rw [fromRegions_of_ne_nil (by simp), validatePairs_append pre prev next post hwf,
    validatePairs_unsorted prev next post h]
  rfl

/-- first offending adjacent pair, cause 2: sorted but `prev.last_addr() ≥ next.start` → `overlap` -/
theorem fromRegions_overlap (pre : GMem) (prev next : Region) (post : GMem)
    (hwf : WF (pre ++ [prev])) (h1 : prev.start ≤ next.start)
    (h2 : prev.start + prev.len - 1 ≥ next.start) :
    fromRegions (pre ++ prev :: next :: post) = .ok (.error .overlap) := by
  have hp : RegOk prev := hwf.mem (by simp)
  rw [fromRegions_of_ne_nil (by simp), validatePairs_append pre prev next post hwf,
    validatePairs_overlap prev next post hp h1 (by omega)]
  rfl

/-- every refused non-empty list has a first offending adjacent pair (everything up to
    and including `prev` is well-formed, `next` starts before `prev` ends) -/
theorem exists_first_offending (rs : GMem) (hr : ∀ r ∈ rs, 0 < r.len ∧ r.start + r.len < U)
    (hne : rs ≠ []) (hnwf : ¬ WF rs) :
    ∃ pre prev next post, rs = pre ++ prev :: next :: post ∧ WF (pre ++ [prev]) ∧
      next.start < prev.start + prev.len := by
  induction rs with
  | nil => exact absurd rfl hne
  | cons p tl ih =>
    have hp := hr p List.mem_cons_self
    cases tl with
    | nil =>
      exact absurd ((WF_cons p []).2 ⟨hp.1, hp.2, by simp, WF_nil⟩) hnwf
    | cons n rest =>
      by_cases hoff : n.start < p.start + p.len
      · exact ⟨[], p, n, rest, rfl, (WF_cons p []).2 ⟨hp.1, hp.2, by simp, WF_nil⟩, hoff⟩
      · have hn := hr n (List.mem_cons_of_mem _ List.mem_cons_self)
        have chain : ∀ l : GMem, WF (n :: l) → WF (p :: n :: l) := by
          intro l hw
          refine (WF_cons p _).2 ⟨hp.1, hp.2, ?_, hw⟩
          intro x hx
          rcases List.mem_cons.1 hx with rfl | hx
          · omega
          · have := ((WF_cons n l).1 hw).2.2.1 x hx; omega
        have hnwf' : ¬ WF (n :: rest) := fun hw => hnwf (chain rest hw)
        obtain ⟨pre, prev, next, post, heq, hw, hlt⟩ :=
          ih (fun r h => hr r (List.mem_cons_of_mem _ h)) (by simp) hnwf'
        refine ⟨p :: pre, prev, next, post, by rw [heq]; rfl, ?_, hlt⟩
        cases pre with
        | nil =>
          simp at heq
          obtain ⟨rfl, _⟩ := heq
          exact chain [] hw
        | cons y pre' =>
          simp at heq
          obtain ⟨rfl, _⟩ := heq
          exact chain _ hw

/-- duplicates (`prev.start = next.start`) are reported as overlap, not as unsorted -/
theorem fromRegions_duplicate_start (prev next : Region) (hp : 0 < prev.len ∧ prev.start + prev.len < U)
    (h : prev.start = next.start) : fromRegions [prev, next] = .ok (.error .overlap) :=
  fromRegions_overlap [] prev next [] ((WF_cons prev []).2 ⟨hp.1, hp.2, by simp, WF_nil⟩)
    (by omega) (by omega)

/-- adjacency (`prev.start + prev.len = next.start`) is accepted -/
theorem fromRegions_adjacent (prev next : Region) (hp : 0 < prev.len ∧ prev.start + prev.len < U)
    (hn : 0 < next.len ∧ next.start + next.len < U) (h : prev.start + prev.len = next.start) :
    fromRegions [prev, next] = .ok (.ok [prev, next]) := by
  refine (fromRegions_ok_iff _ ?_).2 ⟨by simp, ?_⟩
  · intro r hr'
    simp at hr'
    rcases hr' with rfl | rfl
    · exact hp
    · exact hn
  · refine (WF_cons _ _).2 ⟨hp.1, hp.2, ?_, (WF_cons _ _).2 ⟨hn.1, hn.2, by simp, WF_nil⟩⟩
    intro x hx
    simp at hx; subst hx; omega

/-! ### 3. insert_region -/

/-- the two ranges do not share an address -/
def disjoint (r x : Region) : Prop :=
  r.start + r.len ≤ x.start ∨ x.start + x.len ≤ r.start

instance (r x : Region) : Decidable (disjoint r x) := by unfold disjoint; infer_instance

theorem disjoint_iff_no_common_addr {r x : Region} (hr : 0 < r.len) (hx : 0 < x.len) :
    disjoint r x ↔
      ¬ ∃ a, (r.start ≤ a ∧ a < r.start + r.len) ∧ (x.start ≤ a ∧ a < x.start + x.len) := by
  unfold disjoint
  constructor
  · rintro h ⟨a, h1, h2⟩; omega
  · intro h
    by_cases hc : r.start + r.len ≤ x.start ∨ x.start + x.len ≤ r.start
    · exact hc
    · exfalso
      apply h
      by_cases hle : r.start ≤ x.start
      · exact ⟨x.start, by omega, by omega⟩
      · exact ⟨r.start, by omega, by omega⟩

theorem insertRegion_eval (m : GMem) (h : WF m) (r : Region)
    (hr : 0 < r.len ∧ r.start + r.len < U) :
    m.insertRegion r =
      if ∀ x ∈ m, disjoint r x then .ok (.ok (insertSorted r m)) else .ok (.error .overlap) := by
  have hall : ∀ x ∈ insertSorted r m, RegOk x := by
    intro x hx
    rcases (mem_insertSorted r x m).1 hx with rfl | hx
    · exact hr
    · exact h.mem hx
  have hsorted : (insertSorted r m).Pairwise (fun r s => r.start ≤ s.start) :=
    insertSorted_sorted r m (h.starts_lt.imp (fun hlt => Nat.le_of_lt hlt))
  unfold insertRegion
  rw [fromRegions_of_ne_nil (insertSorted_ne_nil r m)]
  have hiff := validatePairs_none_iff _ hall
  rw [WF_insertSorted_iff h hr] at hiff
  by_cases hd : ∀ x ∈ m, disjoint r x
  · rw [if_pos hd, hiff.2 hd]; rfl
  · rw [if_neg hd]
    rcases validatePairs_sorted _ hall hsorted with hv | hv
    · exact absurd (hiff.1 hv) hd
    · rw [hv]; rfl

/-- `insert_region` succeeds iff the new region is disjoint from every old one; then the
    new map is well-formed and holds exactly the old regions plus the new one; otherwise
    the error is `overlap` (never `unsorted`, never a panic). -/
theorem insertRegion_spec (m : GMem) (h : WF m) (r : Region)
    (hr : 0 < r.len ∧ r.start + r.len < U) :
    ((∃ m', m.insertRegion r = .ok (.ok m')) ↔ ∀ x ∈ m, disjoint r x) ∧
    (∀ m', m.insertRegion r = .ok (.ok m') → WF m' ∧ m'.Perm (r :: m)) ∧
    ((¬ ∀ x ∈ m, disjoint r x) → m.insertRegion r = .ok (.error .overlap)) := by
  rw [insertRegion_eval m h r hr]
  by_cases hd : ∀ x ∈ m, disjoint r x
  · rw [if_pos hd]
    refine ⟨⟨fun _ => hd, fun _ => ⟨_, rfl⟩⟩, ?_, fun hn => absurd hd hn⟩
    intro m' hm'
    injection hm' with hm'; injection hm' with hm'
    subst hm'
    exact ⟨(WF_insertSorted_iff h hr).2 hd, insertSorted_perm r m⟩
  · rw [if_neg hd]
    refine ⟨by simp [hd], ?_, fun _ => rfl⟩
    intro m' hm'
    injection hm' with hm'; cases hm'

theorem insertRegion_ok {m : GMem} (h : WF m) {r : Region} (hr : 0 < r.len ∧ r.start + r.len < U)
    {m' : GMem} (hm : m.insertRegion r = .ok (.ok m')) :
    WF m' ∧ m'.Perm (r :: m) ∧ ∀ x ∈ m, disjoint r x :=
  have hs := insertRegion_spec m h r hr
  ⟨(hs.2.1 m' hm).1, (hs.2.1 m' hm).2, hs.1.1 ⟨m', hm⟩⟩

/-! ### 4. remove_region -/

/-- `remove_region` succeeds iff some region has exactly this start and size; it returns the
    map without that region, and that region.  The result may be the empty map: unlike the
    constructor, removal does not refuse to produce a map with no regions. -/
theorem removeRegion_spec (m : GMem) (h : WF m) (base size : Nat) (m' : GMem) (r : Region) :
    m.removeRegion base size = .ok (m', r) ↔
      ∃ i, m[i]? = some r ∧ r.start = base ∧ r.len = size ∧ m' = m.eraseIdx i := by
  unfold removeRegion
  constructor
  · intro hrm
    cases hb : m.bsearch base with
    | error x => rw [hb] at hrm; cases hrm
    | ok i =>
      rw [hb] at hrm
      obtain ⟨s, hs, hss⟩ := bsearch_ok hb
      simp only [hs] at hrm
      split at hrm
      · rename_i hlen
        injection hrm with hrm; injection hrm with e1 e2
        subst e1; subst e2
        exact ⟨i, hs, hss, hlen, rfl⟩
      · cases hrm
  · rintro ⟨i, hi, hs, hl, rfl⟩
    have hb : m.bsearch base = .ok i := (bsearch_ok_iff h base i).2 (by simp [hi, hs])
    rw [hb]
    simp [hi, hl]

theorem removeRegion_ok {m : GMem} (h : WF m) {base size : Nat} {m' : GMem} {r : Region}
    (hrm : m.removeRegion base size = .ok (m', r)) :
    WF m' ∧ m.Perm (r :: m') ∧ r ∈ m ∧ r ∉ m' := by
  obtain ⟨i, hi, hs, hl, rfl⟩ := (removeRegion_spec m h base size m' r).1 hrm
  refine ⟨h.sublist (List.eraseIdx_sublist m i), perm_cons_eraseIdx hi, List.mem_of_getElem? hi, ?_⟩
  intro hmem
  obtain ⟨j, hji, hj⟩ := List.mem_eraseIdx_iff_getElem?.1 hmem
  have hrl := h.getElem? hi
  exact hji (GuestLemmas.region_unique (a := r.start) h hj hi (by omega) (by omega))

/-- the only failure is `invalidGuestRegion`, exactly when no region matches start and size -/
theorem removeRegion_err (m : GMem) (h : WF m) (base size : Nat) :
    m.removeRegion base size = .error .invalidGuestRegion ↔
      ¬ ∃ (i : Nat) (r : Region), m[i]? = some r ∧ r.start = base ∧ r.len = size := by
  constructor
  · rintro he ⟨i, r, hi, hs, hl⟩
    have := (removeRegion_spec m h base size (m.eraseIdx i) r).2 ⟨i, hi, hs, hl, rfl⟩
    rw [this] at he; cases he
  · intro hn
    unfold removeRegion
    cases hb : m.bsearch base with
    | error x => rfl
    | ok i =>
      obtain ⟨s, hs, hss⟩ := bsearch_ok hb
      simp only [hs]
      split
      · rename_i hlen; exact absurd ⟨i, s, hs, hss, hlen⟩ hn
      · rfl

theorem removeRegion_cases (m : GMem) (base size : Nat) :
    (∃ m' r, m.removeRegion base size = .ok (m', r)) ∨
    m.removeRegion base size = .error .invalidGuestRegion := by
  unfold removeRegion
  cases hb : m.bsearch base with
  | error x => exact Or.inr rfl
  | ok i =>
    cases hi : m[i]? with
    | none => simp [hi]
    | some s =>
      simp only [hi]
      by_cases hl : s.len = size
      · rw [if_pos hl]; exact Or.inl ⟨_, _, rfl⟩
      · rw [if_neg hl]; exact Or.inr rfl

/-! ### 5. persistence: the functions are pure, the old map `m` is untouched by
    construction; every old region is reached unchanged through the new map -/

theorem insert_keeps_old {m : GMem} (h : WF m) {r : Region} (hr : 0 < r.len ∧ r.start + r.len < U)
    {m' : GMem} (hm : m.insertRegion r = .ok (.ok m')) :
    (∀ x ∈ m, x ∈ m') ∧ r ∈ m' ∧ (∀ x ∈ m', x = r ∨ x ∈ m) ∧
    (∀ x ∈ m, ∃ y ∈ m', y.start = x.start ∧ y.len = x.len ∧ y.id = x.id ∧ y.mem = x.mem) := by
  have hp := (insertRegion_ok h hr hm).2.1
  have h1 : ∀ x ∈ m, x ∈ m' := fun x hx => hp.mem_iff.2 (List.mem_cons_of_mem _ hx)
  refine ⟨h1, hp.mem_iff.2 List.mem_cons_self, ?_, fun x hx => ⟨x, h1 x hx, rfl, rfl, rfl, rfl⟩⟩
  intro x hx
  exact List.mem_cons.1 (hp.mem_iff.1 hx)

theorem remove_keeps_old {m : GMem} (h : WF m) {base size : Nat} {m' : GMem} {r : Region}
    (hrm : m.removeRegion base size = .ok (m', r)) :
    (∀ x ∈ m, x ≠ r → x ∈ m') ∧ (∀ x ∈ m', x ∈ m ∧ x ≠ r) ∧
    (∀ x ∈ m, x ≠ r → ∃ y ∈ m', y.start = x.start ∧ y.len = x.len ∧ y.id = x.id ∧ y.mem = x.mem) := by
  obtain ⟨_, hp, _, hnot⟩ := removeRegion_ok h hrm
  have h1 : ∀ x ∈ m, x ≠ r → x ∈ m' := by
    intro x hx hne
    rcases List.mem_cons.1 (hp.mem_iff.1 hx) with e | e
    · exact absurd e hne
    · exact e
  refine ⟨h1, ?_, fun x hx hne => ⟨x, h1 x hx hne, rfl, rfl, rfl, rfl⟩⟩
  intro x hx
  refine ⟨hp.mem_iff.2 (List.mem_cons_of_mem _ hx), ?_⟩
  intro e; subst e; exact hnot hx

/-- index form: positions below the removed one are unchanged, the others shift down by one -/
theorem remove_index {m : GMem} (h : WF m) {base size : Nat} {m' : GMem} {r : Region}
    (hrm : m.removeRegion base size = .ok (m', r)) :
    ∃ i, m[i]? = some r ∧ (∀ j, j < i → m'[j]? = m[j]?) ∧ (∀ j, i ≤ j → m'[j]? = m[j + 1]?) := by
  obtain ⟨i, hi, _, _, rfl⟩ := (removeRegion_spec m h base size m' r).1 hrm
  exact ⟨i, hi, fun j hj => List.getElem?_eraseIdx_of_lt hj, fun j hj => List.getElem?_eraseIdx_of_ge hj⟩

/-! ### 6. history: every map reachable by edits is well-formed -/

inductive Req where
  | insert (r : Region)
  | remove (base size : Nat)

/-- one request: a successful edit yields the new map, a refused one leaves the map as it was -/
def step (m : GMem) : Req → GMem
  | .insert r => match m.insertRegion r with
    | .ok (.ok m') => m'
    | _ => m
  | .remove base size => match m.removeRegion base size with
    | .ok (m', _) => m'
    | .error _ => m

/-- all intermediate maps, the initial one included -/
def trace (m : GMem) : List Req → List GMem
  | [] => [m]
  | q :: qs => m :: trace (step m q) qs

theorem step_WF {m : GMem} (h : WF m) (q : Req)
    (hq : ∀ r, q = .insert r → 0 < r.len ∧ r.start + r.len < U) : WF (step m q) := by
  cases q with
  | insert r =>
    show WF (match m.insertRegion r with | .ok (.ok m') => m' | _ => m)
    split
    · rename_i m' hm
      exact (insertRegion_ok h (hq r rfl) hm).1
    · exact h
  | remove base size =>
    show WF (match m.removeRegion base size with | .ok (m', _) => m' | .error _ => m)
    split
    · rename_i m' r hm
      exact (removeRegion_ok h hm).1
    · exact h

theorem history (m : GMem) (h : WF m) (reqs : List Req)
    (hq : ∀ r, Req.insert r ∈ reqs → 0 < r.len ∧ r.start + r.len < U) :
    ∀ m' ∈ trace m reqs, WF m' := by
  induction reqs generalizing m with
  | nil => intro m' hm'; simp [trace] at hm'; subst hm'; exact h
  | cons q qs ih =>
    intro m' hm'
    simp only [trace, List.mem_cons] at hm'
    rcases hm' with rfl | hm'
    · exact h
    · refine ih (step m q) (step_WF h q ?_) (fun r hr => hq r (List.mem_cons_of_mem _ hr)) m' hm'
      intro r hr; subst hr; exact hq r List.mem_cons_self

/-- in particular from the empty map -/
theorem history_from_empty (reqs : List Req)
    (hq : ∀ r, Req.insert r ∈ reqs → 0 < r.len ∧ r.start + r.len < U) :
    ∀ m' ∈ trace [] reqs, WF m' := history [] WF_nil reqs hq

/-! ### non-vacuity -/

deriving instance DecidableEq for Except

def mem (base n : Nat) : Mem := { base := base, bytes := List.replicate n 0, bm := none }
def reg (start n id : Nat) : Region := { start := start, mem := mem (0x1000 * id) n, id := id }

/-- `[0,5)`, `[10,13)` -/
def ex : GMem := [reg 0 5 1, reg 10 3 2]

theorem ex_WF : WF ex := by decide

-- the constructor refuses an end beyond the address space, accepts `end = U - 1`
example : Region.new 0xFFFF_FFFF_FFFF_FFF0 (mem 0 16) 7 = none := by decide
example : (Region.new 0xFFFF_FFFF_FFFF_FFF0 (mem 0 15) 7).isSome = true := by decide
-- insert into a hole
example : ex.insertRegion (reg 5 5 3) = .ok (.ok [reg 0 5 1, reg 5 5 3, reg 10 3 2]) := by decide
-- 1-byte overlap with the next / the previous region
example : ex.insertRegion (reg 5 6 3) = .ok (.error .overlap) := by decide
example : ex.insertRegion (reg 4 2 3) = .ok (.error .overlap) := by decide
-- duplicate start
example : ex.insertRegion (reg 10 1 3) = .ok (.error .overlap) := by decide
example : fromRegions [reg 10 1 3, reg 10 3 2] = .ok (.error .overlap) := by decide
-- adjacency on both sides
example : ex.insertRegion (reg 13 2 3) = .ok (.ok [reg 0 5 1, reg 10 3 2, reg 13 2 3]) := by decide
-- unsorted input to the constructor
example : fromRegions [reg 10 3 2, reg 0 5 1] = .ok (.error .unsorted) := by decide
example : fromRegions [] = .ok (.error .noMemoryRegion) := by decide
-- removal: wrong size refused, wrong base refused, exact match removed
example : ex.removeRegion 10 2 = .error .invalidGuestRegion := by decide
example : ex.removeRegion 9 3 = .error .invalidGuestRegion := by decide
example : ex.removeRegion 10 3 = .ok ([reg 0 5 1], reg 10 3 2) := by decide
-- removal of the last region yields the empty map (legal result of removal)
example : GMem.removeRegion [reg 0 5 1] 0 5 = .ok ([], reg 0 5 1) := by decide
example : trace ex [.insert (reg 5 5 3), .insert (reg 4 2 4), .remove 0 5, .remove 0 5] =
    [ex, [reg 0 5 1, reg 5 5 3, reg 10 3 2], [reg 0 5 1, reg 5 5 3, reg 10 3 2],
     [reg 5 5 3, reg 10 3 2], [reg 5 5 3, reg 10 3 2]] := by decide

/-! ### why `0 < r.len` is a hypothesis: the model's constructors accept an empty region
    (the crate cannot build one: a mapping of length 0 is refused by mmap) -/

example : (Region.new 5 (mem 0 0) 9).isSome = true := by decide
/-- accepted as the only / last region … -/
theorem zero_len_last_accepted : fromRegions [reg 0 5 1, reg 7 0 9] = .ok (.ok [reg 0 5 1, reg 7 0 9]) := by
  decide
/-- … then `find_region` resolves its start although no byte is mapped there … -/
theorem zero_len_found : GMem.findRegion [reg 0 5 1, reg 7 0 9] 7 = .ok (some 1) := by decide
/-- … and anywhere else `last_addr` of it is `len - 1` on `0`: a panic -/
theorem zero_len_panics : fromRegions [reg 7 0 9, reg 8 1 1] = .panic := by decide

end C10
end VmMem

#print axioms VmMem.C10.Region.new_some_iff
#print axioms VmMem.C10.Region.new_none_iff
#print axioms VmMem.C10.Region.new_eq_some
#print axioms VmMem.C10.fromRegions_nil
#print axioms VmMem.C10.fromRegions_ok_same
#print axioms VmMem.C10.fromRegions_ok_iff
#print axioms VmMem.C10.fromRegions_no_panic
#print axioms VmMem.C10.fromRegions_unsorted
#print axioms VmMem.C10.fromRegions_overlap
#print axioms VmMem.C10.exists_first_offending
#print axioms VmMem.C10.fromRegions_duplicate_start
#print axioms VmMem.C10.fromRegions_adjacent
#print axioms VmMem.C10.disjoint_iff_no_common_addr
#print axioms VmMem.C10.insertRegion_eval
#print axioms VmMem.C10.insertRegion_spec
#print axioms VmMem.C10.insertRegion_ok
#print axioms VmMem.C10.removeRegion_spec
#print axioms VmMem.C10.removeRegion_ok
#print axioms VmMem.C10.removeRegion_err
#print axioms VmMem.C10.removeRegion_cases
#print axioms VmMem.C10.insert_keeps_old
#print axioms VmMem.C10.remove_keeps_old
#print axioms VmMem.C10.remove_index
#print axioms VmMem.C10.step_WF
#print axioms VmMem.C10.history
#print axioms VmMem.C10.history_from_empty
#print axioms VmMem.C10.ex_WF
#print axioms VmMem.C10.zero_len_last_accepted
#print axioms VmMem.C10.zero_len_found
#print axioms VmMem.C10.zero_len_panics
