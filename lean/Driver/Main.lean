/-
  Driver.Main — `vmdriver`: replays the harness's op lines on the executable model
  and prints one observation line per op.  Imports only `VmMem.Model.*` (core Lean),
  so it links as a native executable.
-/
import VmMem.Model.Basic
import VmMem.Model.Addr
import VmMem.Model.Endian
import VmMem.Model.Bitmap
import VmMem.Model.Copy
import VmMem.Model.Volatile
import VmMem.Model.Io
import VmMem.Model.Guest
import VmMem.Model.Construct
import VmMem.Model.Lifetime
import VmMem.Model.Atomic
import VmMem.Model.XenBuild
import Driver.Proto
namespace Driver
open VmMem

inductive Acc where
  | sl (s : VSlice) | rf (r : VRef) | ar (a : VArr)
  deriving Inhabited

structure St where
  chk : Bool := false
  mem : Mem := { base := 0, bytes := [], bm := none }
  acc : Array (Option Acc) := #[]
  bms : Array (Option ABitmap) := #[]
  gms : Array (Option GMem) := #[]
  pend : Array (List Region) := #[]          -- regions collected for `g.build`
  regs : Array (Option Mem) := #[]           -- region id ↦ its memory: maps derived by insert/remove share regions (`Arc`)
  life : Lifetime.St := {}
  atom : Atomic.St := Atomic.init 0
  rds : Array (Option Reader) := #[]
  wrs : Array (Option Writer) := #[]
  xk : XenBuild.Kernel := {}
  xregs : Array (Option XenBuild.Region) := #[]

def tset {α} (a : Array (Option α)) (i : Nat) (v : α) : Array (Option α) :=
  let a := if i < a.size then a else a ++ Array.replicate (i + 1 - a.size) none
  a.set! i (some v)

def tget {α} (a : Array (Option α)) (i : Nat) : Option α := (a[i]?).join

def w64 (kv : KV) (k : String) : BitVec 64 := BitVec.ofNat 64 (kv.nat k)

def fmtOptW (o : Option Word) : String :=
  match o with | some x => s!"some {x.toNat}" | none => "none"

/-- dirty state of a container -/
def fmtBm (b : Option ABitmap) : String :=
  match b with | none => "-" | some b => fmtWords b.map

def fmtMem (m : Mem) : String := s!"h={fnv1a m.bytes} d={fmtBm m.bm}"

def fmtGMem (g : GMem) : String :=
  " ".intercalate (g.map fun r => s!"[{r.start}:{r.len}:{r.id} {fmtMem r.mem}]")

def fmtSlice (m : Mem) (s : VSlice) : String := s!"ok a={(s.addr : Int) - m.base} n={s.size}"

def ty (kv : KV) : Ty := ⟨kv.nat "ts", kv.nat "ta"⟩

/-! ### pure worlds -/
def stepAddr (st : St) (op : String) (kv : KV) : String :=
  let a := w64 kv "a"; let b := w64 kv "b"
  match op with
  | "a.cadd" => fmtOptW (Addr.checkedAdd a b)
  | "a.csub" => fmtOptW (Addr.checkedSub a b)
  | "a.coff" => fmtOptW (Addr.checkedOffsetFrom a b)
  | "a.oadd" => let r := Addr.overflowingAdd a b; s!"{r.1.toNat} {r.2}"
  | "a.osub" => let r := Addr.overflowingSub a b; s!"{r.1.toNat} {r.2}"
  | "a.uadd" => fmtRes (Addr.uncheckedAdd st.chk a b) (fun x => s!"ok {x.toNat}")
  | "a.usub" => fmtRes (Addr.uncheckedSub st.chk a b) (fun x => s!"ok {x.toNat}")
  | "a.uoff" => fmtRes (Addr.uncheckedOffsetFrom st.chk a b) (fun x => s!"ok {x.toNat}")
  | "a.mask" => s!"{(Addr.mask a b).toNat}"
  | "a.and" => s!"{(Addr.bitAnd a b).toNat}"
  | "a.or" => s!"{(Addr.bitOr a b).toNat}"
  | "a.cmp" => s!"{Addr.cmp a b} {decide (a = b)}"
  | "a.calign" => fmtRes (Addr.checkedAlignUp a b) (fun x => "ok " ++ fmtOptW x)
  | "a.ualign" => fmtRes (Addr.uncheckedAlignUp st.chk a b) (fun x => s!"ok {x.toNat}")
  | _ => "bad-op"

def stepEndian (op : String) (kv : KV) : String :=
  let o := if kv.str "o" = "be" then Endian.Order.be else Endian.Order.le
  let k := kv.nat "k"; let v := kv.nat "v"; let n := kv.nat "n"
  let h := Endian.Host.little
  match op with
  | "e.wrap" =>
    let raw := Endian.wrap h o k v
    s!"raw={raw} bytes={hexEncode (Endian.hostBytes h k raw)} native={Endian.toNative h o k raw} eq={Endian.eqNative h o k raw n}"
  | "e.unwrap" =>
    -- bytes found in memory, read as a wrapper
    let raw := Endian.ofHostBytes h (kv.bytes "bytes")
    s!"native={Endian.toNative h o k raw}"
  | _ => "bad-op"

/-! ### bitmap world -/
def stepBitmap (st : St) (op : String) (kv : KV) : St × String :=
  let id := kv.nat "id"
  match op with
  | "b.new" =>
    let b := ABitmap.new (kv.nat "size") (kv.nat "page")
    ({ st with bms := tset st.bms id b }, s!"ok len={b.size} bs={b.byteSize} w={fmtWords b.map}")
  | _ =>
    match tget st.bms id with
    | none => (st, "bad-id")
    | some b =>
      let upd (r : Res ABitmap) : St × String :=
        match r with
        | .ok b' => ({ st with bms := tset st.bms id b' }, s!"ok w={fmtWords b'.map}")
        | .err e => (st, fmtErr e)
        | .panic => (st, "panic")
      -- nested `slice_at` offsets: the composed base offset
      let base := (kv.natList "chain").foldl sliceAt 0
      match op with
      | "b.mark" => upd (b.setResetAddrRange (kv.nat "start") (kv.nat "len") true)
      | "b.clear" => upd (b.setResetAddrRange (kv.nat "start") (kv.nat "len") false)
      | "b.setbit" => upd (b.setResetBit (kv.nat "i") true)
      | "b.resetbit" => upd (b.setResetBit (kv.nat "i") false)
      | "b.isbit" => (st, fmtRes (b.isBitSet (kv.nat "i")) (fun x => s!"ok {x}"))
      | "b.isaddr" => (st, fmtRes (b.isAddrSet (kv.nat "a")) (fun x => s!"ok {x}"))
      | "b.len" => (st, s!"ok len={b.size} bs={b.byteSize}")
      | "b.gar" =>
        let (b', ws) := b.getAndReset
        ({ st with bms := tset st.bms id b' }, s!"ok r={fmtWords ws} w={fmtWords b'.map}")
      | "b.reset" => upd (.ok b.reset)
      | "b.clone" =>
        let c := b.clone
        ({ st with bms := tset st.bms (kv.nat "d") c }, s!"ok len={c.size} bs={c.byteSize} w={fmtWords c.map}")
      | "b.enlarge" =>
        match (if st.chk then b.enlarge (kv.nat "add") else .ok (b.enlargeUnchecked (kv.nat "add"))) with
        | .ok b' => ({ st with bms := tset st.bms id b' }, s!"ok len={b'.size} bs={b'.byteSize} w={fmtWords b'.map}")
        | .err e => (st, fmtErr e)
        | .panic => (st, "panic")
      | "b.smark" => upd (markVia b base (kv.nat "off") (kv.nat "len"))
      | "b.sdirty" =>
        -- `wrap=none|unit`: `Option::None` and `()` track nothing (bitmap/mod.rs); `some` forwards
        if kv.str "wrap" = "none" || kv.str "wrap" = "unit" then (st, "ok false")
        else (st, fmtRes (dirtyVia b base (kv.nat "off")) (fun x => s!"ok {x}"))
      | _ => (st, "bad-op")

/-! ### atomic step programs (C08): run a public operation and print the atomic steps it issues -/
def fmtStep (a : AStep) (r : BitVec 64) : String :=
  match a with
  | .fetchOr w m => s!"fo:{w}:{m.toNat}:{r.toNat}"
  | .fetchAnd w m => s!"fa:{w}:{m.toNat}:{r.toNat}"
  | .load w => s!"ld:{w}:0:{r.toNat}"
  | .store w v => s!"st:{w}:{v.toNat}:0"

def stepProgram (st : St) (op : String) (kv : KV) : St × String :=
  let id := kv.nat "id"
  match tget st.bms id with
  | none => (st, "bad-id")
  | some b =>
    let prog : Option (List AStep) := match op with
      | "p.mark" => some (b.rangeProgram (kv.nat "start") (kv.nat "len") true)
      | "p.clear" => some (b.rangeProgram (kv.nat "start") (kv.nat "len") false)
      | "p.setbit" => some (b.bitProgram (kv.nat "i") true)
      | "p.resetbit" => some (b.bitProgram (kv.nat "i") false)
      | "p.gar" => some b.harvestProgram
      | "p.reset" => some b.resetProgram
      | "p.clone" => some b.cloneProgram
      | "p.isbit" => some (if kv.nat "i" < b.size then [.load (kv.nat "i" / 64)] else [])
      | _ => none
    match prog with
    | none => (st, "bad-op")
    | some p =>
      if p.all (ABitmap.stepInRange b.map) then
        let (ws, rets) := runAll b.map p
        let steps := " ".intercalate ((p.zip rets).map fun (a, r) => fmtStep a r)
        ({ st with bms := tset st.bms id { b with map := ws } }, s!"ok steps={steps} w={fmtWords ws}")
      else (st, "panic")

/-! ### copy plan (C06) -/
def fmtTrace : CopyTrace → String
  | .bulk n => s!"bulk {n}"
  | .volatile accs => "v " ++ " ".intercalate (accs.map fun a => s!"{a.width}@{a.off}")

/-! ### slice world -/
def getSl (st : St) (i : Nat) : Option VSlice :=
  match tget st.acc i with | some (.sl s) => some s | _ => none
def getRf (st : St) (i : Nat) : Option VRef :=
  match tget st.acc i with | some (.rf s) => some s | _ => none
def getAr (st : St) (i : Nat) : Option VArr :=
  match tget st.acc i with | some (.ar s) => some s | _ => none

def putAcc (st : St) (i : Nat) (a : Acc) : St := { st with acc := tset st.acc i a }

def stepSlice (st : St) (op : String) (kv : KV) : St × String :=
  let m := st.mem
  let d := kv.nat "d"
  let mutM (r : Res Mem) (extra : String := "") : St × String :=
    match r with
    | .ok m' => ({ st with mem := m' }, s!"ok{extra} {fmtMem m'}")
    | .err e => (st, s!"{fmtErr e} {fmtMem m}")
    | .panic => (st, "panic")
  let derive (r : Res VSlice) : St × String :=
    match r with
    | .ok s => (putAcc st d (.sl s), fmtSlice m s)
    | .err e => (st, fmtErr e)
    | .panic => (st, "panic")
  match op with
  | "s.new" =>
    let page := kv.nat "page"
    let bytes := kv.bytes "data"
    -- the root accessor may itself be a slice (at `bmoff`) of a larger tracked area
    let bmoff := kv.nat "bmoff"
    let bm := if page = 0 then none else some (ABitmap.new (bmoff + bytes.length) page)
    let m : Mem := { base := kv.nat "base", bytes := bytes, bm := bm }
    ({ st with mem := m, acc := #[some (.sl { m.root with bmBase := bmoff })] }, s!"ok {fmtMem m}")
  | "s.bmreset" =>
    let m' := { m with bm := m.bm.map ABitmap.reset }
    ({ st with mem := m' }, s!"ok {fmtMem m'}")
  | "s.state" => (st, s!"ok {fmtMem m}")
  | _ =>
  let src := kv.nat "s"
  match tget st.acc src with
  | none => (st, "bad-id")
  | some (.sl s) =>
    match op with
    | "s.sub" | "s.gsl" => derive (s.subslice (kv.nat "off") (kv.nat "cnt"))
    | "s.off" => derive (s.offset (kv.nat "cnt"))
    | "s.split" =>
      match s.splitAt (kv.nat "mid") with
      | .ok (l, r) => (putAcc (putAcc st d (.sl l)) (kv.nat "d2") (.sl r),
                       s!"{fmtSlice m l} | {fmtSlice m r}")
      | .err e => (st, fmtErr e)
      | .panic => (st, "panic")
    | "s.ref" =>
      match s.getRef (kv.nat "off") (ty kv) with
      | .ok r => (putAcc st d (.rf r), s!"ok a={(r.addr : Int) - m.base} n={r.ty.size}")
      | .err e => (st, fmtErr e)
      | .panic => (st, "panic")
    | "s.arr" =>
      match s.getArrayRef (kv.nat "off") (kv.nat "n") (ty kv) with
      | .ok a => (putAcc st d (.ar a), s!"ok a={(a.addr : Int) - m.base} n={a.nelem}")
      | .err e => (st, fmtErr e)
      | .panic => (st, "panic")
    | "s.s2a" => let a := s.toArr; (putAcc st d (.ar a), s!"ok a={(a.addr : Int) - m.base} n={a.nelem}")
    | "s.aref" => (st, fmtRes (s.alignedRef (kv.nat "off") (ty kv)) (fun p => s!"ok a={(p : Int) - m.base}"))
    | "s.guard" => (st, s!"ok a={(s.addr : Int) - m.base} n={s.guardLen}")
    | "s.bv" =>
      let off := min (kv.nat "off") s.size
      let len := min (kv.nat "len") (s.size - off)
      (st, s!"ok {fromSlice (s.addr + off) len (ty kv)} off={off} len={len}")
    | "s.write" => match s.write m (kv.bytes "data") (kv.nat "addr") with
      | .ok (m', n) => ({ st with mem := m' }, s!"ok n={n} {fmtMem m'}")
      | .err e => (st, s!"{fmtErr e} {fmtMem m}")
      | .panic => (st, "panic")
    | "s.read" => (st, fmtRes (s.read m (kv.nat "len") (kv.nat "addr")) (fun x => s!"ok data={hexEncode x}"))
    | "s.wslice" | "s.wobj" =>
      let (m', r) := s.writeSlice m (kv.bytes "data") (kv.nat "addr")
      ({ st with mem := m' }, fmtRes r (fun _ => "ok") ++ s!" {fmtMem m'}")
    | "s.rslice" => (st, fmtRes (s.readSlice m (kv.nat "len") (kv.nat "addr")) (fun x => s!"ok data={hexEncode x}"))
    | "s.robj" => (st, fmtRes (s.readObj m (ty kv) (kv.nat "addr")) (fun x => s!"ok data={hexEncode x}"))
    | "s.store" => mutM (s.store m (kv.bytes "data") (ty kv) (kv.nat "addr"))
    | "s.load" => (st, fmtRes (s.load m (ty kv) (kv.nat "addr")) (fun x => s!"ok data={hexEncode x}"))
    | "s.copyto" => (st, fmtRes (s.copyTo m (ty kv) (kv.nat "blen")) (fun x => s!"ok n={x.1} data={hexEncode x.2}"))
    | "s.copyfrom" => mutM (s.copyFrom m (ty kv) (kv.nat "blen") (kv.bytes "data"))
    | "s.cts" =>
      match getSl st (kv.nat "dst") with
      | some dst => mutM (s.copyToSlice m dst)
      | none => (st, "bad-id")
    | "s.rvf" | "s.revf" =>
      match tget st.rds (kv.nat "rd") with
      | none => (st, "bad-id")
      | some rd =>
        if op = "s.rvf" then
          let (m', rd', r) := s.readVolatileFrom m (kv.nat "addr") rd (kv.nat "count")
          ({ st with mem := m', rds := tset st.rds (kv.nat "rd") rd' },
            fmtRes r (fun n => s!"ok n={n}") ++ s!" {fmtMem m'} left={rd'.avail.length} pos={rd'.pos}")
        else
          let (m', rd', r) := s.readExactVolatileFrom m (kv.nat "addr") rd (kv.nat "count")
          ({ st with mem := m', rds := tset st.rds (kv.nat "rd") rd' },
            fmtRes r (fun _ => "ok") ++ s!" {fmtMem m'}" ++ (match r with | .ok _ => s!" left={rd'.avail.length} pos={rd'.pos}" | _ => ""))
    | "s.wvt" | "s.wavt" =>
      match tget st.wrs (kv.nat "wr") with
      | none => (st, "bad-id")
      | some wr =>
        if op = "s.wvt" then
          let (wr', r) := s.writeVolatileTo m (kv.nat "addr") wr (kv.nat "count")
          ({ st with wrs := tset st.wrs (kv.nat "wr") wr' },
            fmtRes r (fun n => s!"ok n={n}") ++ s!" {fmtMem m} sink={hexEncode wr'.buf} pos={wr'.pos}")
        else
          let (wr', r) := s.writeAllVolatileTo m (kv.nat "addr") wr (kv.nat "count")
          ({ st with wrs := tset st.wrs (kv.nat "wr") wr' },
            fmtRes r (fun _ => "ok") ++ s!" {fmtMem m} sink={hexEncode wr'.buf} pos={wr'.pos}")
    | _ => (st, "bad-op")
  | some (.rf r) =>
    match op with
    | "s.toslice" => derive (.ok r.toSlice)
    | "s.guard" => (st, s!"ok a={(r.addr : Int) - m.base} n={r.guardLen}")
    | "s.rstore" => mutM (r.store m (kv.bytes "data"))
    | "s.rload" => (st, fmtRes (r.load m) (fun x => s!"ok data={hexEncode x}"))
    | _ => (st, "bad-op")
  | some (.ar a) =>
    match op with
    | "s.toslice" => derive a.toSlice
    | "s.guard" => (st, s!"ok a={(a.addr : Int) - m.base} n={a.guardLen}")
    | "s.refat" =>
      match a.refAt (kv.nat "i") with
      | .ok r => (putAcc st d (.rf r), s!"ok a={(r.addr : Int) - m.base} n={r.ty.size}")
      | .err e => (st, fmtErr e)
      | .panic => (st, "panic")
    | "s.astore" => mutM (a.store m (kv.nat "i") (kv.bytes "data"))
    | "s.aload" => (st, fmtRes (a.load m (kv.nat "i")) (fun x => s!"ok data={hexEncode x}"))
    | "s.acopyto" => (st, fmtRes (a.copyTo m (kv.nat "blen")) (fun x => s!"ok n={x.1} data={hexEncode x.2}"))
    | "s.acopyfrom" => mutM (a.copyFrom m (kv.nat "blen") (kv.bytes "data"))
    | "s.acts" =>
      match getSl st (kv.nat "dst") with
      | some dst => mutM (a.copyToSlice m dst)
      | none => (st, "bad-id")
    | _ => (st, "bad-op")

/-! ### streams -/
def stepStream (st : St) (op : String) (kv : KV) : St × String :=
  let id := kv.nat "id"
  match op with
  | "rd.new" =>
    let kind := match kv.str "kind" with
      | "slice" => ReaderKind.slice | "cursor" => .cursor | "fd" => .fd | _ => .scripted
    let r : Reader := { kind := kind, data := kv.bytes "data", pos := kv.nat "pos", script := parseScript (kv.str "script") }
    ({ st with rds := tset st.rds id r }, "ok")
  | "wr.new" =>
    let kind := match kv.str "kind" with
      | "mutslice" => WriterKind.mutSlice | "vec" => .vec | "cursor" => .cursor | "fd" => .fd | _ => .scripted
    let w : Writer := { kind := kind, buf := kv.bytes "data", pos := kv.nat "pos", script := parseScript (kv.str "script") }
    ({ st with wrs := tset st.wrs id w }, "ok")
  | "rd.state" =>
    match tget st.rds id with
    | some r => (st, s!"ok left={r.avail.length} pos={r.pos}")
    | none => (st, "bad-id")
  | _ => (st, "bad-op")

/-! ### guest memory world -/
def mkRegion (kv : KV) : Option Region :=
  let len := kv.nat "len"; let page := kv.nat "page"
  let mem : Mem := { base := kv.nat "base", bytes := List.replicate len 0,
                     bm := if page = 0 then none else some (ABitmap.new len page) }
  Region.new (kv.nat "start") mem (kv.nat "rid")

def fmtMapErr : GMem.MapErr → String
  | .noMemoryRegion => "err nomem" | .unsorted => "err unsorted"
  | .overlap => "err overlap" | .invalidGuestRegion => "err invalidregion"

def fmtLayout (g : GMem) : String := ",".intercalate (g.map fun r => s!"{r.start}:{r.len}:{r.id}")

/-- regions are shared between maps (`Arc<GuestRegionMmap>`): the driver keeps the one
    memory of each region id and refreshes / writes back a map's view around every op -/
def refresh (st : St) (g : GMem) : GMem := g.map fun r => match tget st.regs r.id with | some m => { r with mem := m } | none => r
def writeBack (st : St) (g : GMem) : St := { st with regs := g.foldl (fun a r => tset a r.id r.mem) st.regs }

def stepGuest1 (st : St) (op : String) (kv : KV) : St × String :=
  let mi := kv.nat "m"
  match op with
  | "g.begin" => ({ st with pend := (if mi < st.pend.size then st.pend else st.pend ++ Array.replicate (mi + 1 - st.pend.size) []).set! mi [] }, "ok")
  | "g.region" =>
    match mkRegion kv with
    | none => (st, "err invalidregion")
    | some r => ({ st with pend := st.pend.modify mi (· ++ [r]) }, "ok")
  | "g.build" =>
    match GMem.fromRegions (st.pend.getD mi []) with
    | .ok (.ok g) => (writeBack { st with gms := tset st.gms mi g } g, s!"ok {fmtLayout g}")
    | .ok (.error e) => (st, fmtMapErr e)
    | .err e => (st, fmtErr e)
    | .panic => (st, "panic")
  | _ =>
  match tget st.gms mi with
  | none => (st, "bad-id")
  | some g =>
    let g := refresh st g
    let a := kv.nat "a"
    let putG (g' : GMem) : St := writeBack { st with gms := tset st.gms mi g' } g'
    let rb (r : Res Bool) : St × String := (st, fmtRes r (fun x => s!"ok {x}"))
    match op with
    | "g.insert" =>
      match mkRegion kv with
      | none => (st, "err invalidregion")
      | some r =>
        match g.insertRegion r with
        | .ok (.ok g') => (writeBack { st with gms := tset st.gms (kv.nat "d") g' } g', s!"ok {fmtLayout g'}")
        | .ok (.error e) => (st, fmtMapErr e)
        | .err e => (st, fmtErr e)
        | .panic => (st, "panic")
    | "g.remove" =>
      match g.removeRegion (kv.nat "base") (kv.nat "size") with
      | .ok (g', r) => ({ st with gms := tset st.gms (kv.nat "d") g' }, s!"ok rid={r.id} {fmtLayout g'}")
      | .error e => (st, fmtMapErr e)
    | "g.layout" => (st, s!"ok {fmtLayout g}")
    | "g.state" => (st, s!"ok {fmtGMem g}")
    | "g.num" => (st, s!"ok {g.numRegions}")
    | "g.last" => (st, fmtRes g.lastAddr (fun x => s!"ok {x}"))
    | "g.find" => (st, fmtRes (g.findRegion a) (fun x => match x.bind (g[·]?) with
        | some r => s!"ok some {r.start}" | none => "ok none"))
    | "g.tra" => (st, fmtRes (g.toRegionAddr a) (fun x => match x with
        | some (i, ra) => s!"ok some {(g[i]?.map (·.start)).getD 0} {ra}" | none => "ok none"))
    | "g.air" => rb (g.addressInRange a)
    | "g.ca" => (st, fmtRes (g.checkAddress a) (fun x => match x with | some v => s!"ok some {v}" | none => "ok none"))
    | "g.cr" => rb (g.checkRange a (kv.nat "len"))
    | "g.co" => (st, fmtRes (g.checkedOffset a (kv.nat "off")) (fun x => match x with | some v => s!"ok some {v}" | none => "ok none"))
    | "g.host" => (st, fmtRes (g.getHostAddress a) (fun p =>
        match g.find? (fun r => r.mem.base ≤ p ∧ p < r.mem.base + r.len) with
        | some r => s!"ok {r.start} {p - r.mem.base}" | none => "ok ?"))
    | "g.slice" => (st, fmtRes (g.getSlice a (kv.nat "cnt")) (fun x =>
        match g[x.1]? with
        | some r => s!"ok {r.start} {(x.2.addr : Int) - r.mem.base} {x.2.size}" | none => "ok ?"))
    | "g.write" =>
      let (g', r) := g.write (kv.bytes "data") a
      (putG g', fmtRes r (fun n => s!"ok n={n}") ++ " " ++ fmtGMem g')
    | "g.wslice" | "g.wobj" =>
      let (g', r) := g.writeSlice (kv.bytes "data") a
      (putG g', fmtRes r (fun _ => "ok") ++ " " ++ fmtGMem g')
    | "g.read" => (st, fmtRes (g.read (kv.nat "len") a) (fun x => s!"ok n={x.length} data={hexEncode x}"))
    | "g.rslice" => (st, fmtRes (g.readSlice (kv.nat "len") a) (fun x => s!"ok data={hexEncode x}"))
    | "g.robj" => (st, fmtRes (g.readObj (ty kv) a) (fun x => s!"ok data={hexEncode x}"))
    | "g.store" =>
      match g.store (kv.bytes "data") (ty kv) a with
      | .ok g' => (putG g', "ok " ++ fmtGMem g')
      | .err e => (st, fmtErr e ++ " " ++ fmtGMem g)
      | .panic => (st, "panic")
    | "g.load" => (st, fmtRes (g.load (ty kv) a) (fun x => s!"ok data={hexEncode x}"))
    | "g.ta" =>
      -- `try_access(count, addr, f)` with a scripted callback: `f` = Ok(len), `o<n>` = Ok(n), `e` = Err(HostAddressNotAvailable);
      -- an exhausted script answers Ok(len).  The observation lists what the callback was given.
      let script := ((kv.str "script").splitOn ",").filter (· ≠ "")
      let cb : GMem → (List String × List String) → Nat → Nat → Nat → Nat → GMem × (List String × List String) × Res Nat :=
        fun m (sc, seen) total len start idx =>
          let seen' := seen ++ [s!"{total}:{len}:{start}:{idx}"]
          match sc with
          | [] => (m, ([], seen'), .ok len)
          | x :: rest =>
            if x = "f" then (m, (rest, seen'), .ok len)
            else if x = "e" then (m, (rest, seen'), .err .hostAddressNotAvailable)
            else (m, (rest, seen'), .ok ((String.ofList (x.toList.drop 1)).toNat?.getD 0))
      let (_, (_, seen), r) := GMem.tryAccess cb g (script, []) (kv.nat "count") a
      (st, fmtRes r (fun n => s!"ok n={n}") ++ " calls=" ++ ",".intercalate seen)
    | "g.rvf" | "g.revf" =>
      match tget st.rds (kv.nat "rd") with
      | none => (st, "bad-id")
      | some rd =>
        if op = "g.rvf" then
          let (g', rd', r) := g.readVolatileFrom a rd (kv.nat "count")
          ({ putG g' with rds := tset st.rds (kv.nat "rd") rd' },
            fmtRes r (fun n => s!"ok n={n}") ++ s!" {fmtGMem g'} left={rd'.avail.length} pos={rd'.pos}")
        else
          let (g', rd', r) := g.readExactVolatileFrom a rd (kv.nat "count")
          ({ putG g' with rds := tset st.rds (kv.nat "rd") rd' },
            fmtRes r (fun _ => "ok") ++ s!" {fmtGMem g'} left={rd'.avail.length} pos={rd'.pos}")
    | "g.wvt" | "g.wavt" =>
      match tget st.wrs (kv.nat "wr") with
      | none => (st, "bad-id")
      | some wr =>
        if op = "g.wvt" then
          let (wr', r) := g.writeVolatileTo a wr (kv.nat "count")
          ({ st with wrs := tset st.wrs (kv.nat "wr") wr' },
            fmtRes r (fun n => s!"ok n={n}") ++ s!" sink={hexEncode wr'.buf} pos={wr'.pos}")
        else
          let (wr', r) := g.writeAllVolatileTo a wr (kv.nat "count")
          ({ st with wrs := tset st.wrs (kv.nat "wr") wr' },
            fmtRes r (fun _ => "ok") ++ s!" sink={hexEncode wr'.buf} pos={wr'.pos}")
    | _ =>
      -- region-level `Bytes<MemoryRegionAddress>` : `gr.*` with region index `i`
      let i := kv.nat "i"
      match g[i]? with
      | none => (st, "bad-id")
      | some reg =>
        let putR (r' : Region) : St := putG (g.setRegion i r')
        match op with
        | "gr.write" => match reg.write (kv.bytes "data") a with
          | .ok (r', n) => (putR r', s!"ok n={n} " ++ fmtGMem (g.setRegion i r'))
          | .err e => (st, fmtErr e ++ " " ++ fmtGMem g)
          | .panic => (st, "panic")
        | "gr.wslice" | "gr.wobj" =>
          let (r', x) := reg.writeSlice (kv.bytes "data") a
          (putR r', fmtRes x (fun _ => "ok") ++ " " ++ fmtGMem (g.setRegion i r'))
        | "gr.read" => (st, fmtRes (reg.read (kv.nat "len") a) (fun x => s!"ok n={x.length} data={hexEncode x}"))
        | "gr.rslice" => (st, fmtRes (reg.readSlice (kv.nat "len") a) (fun x => s!"ok data={hexEncode x}"))
        | "gr.store" => match reg.store (kv.bytes "data") (ty kv) a with
          | .ok r' => (putR r', "ok " ++ fmtGMem (g.setRegion i r'))
          | .err e => (st, fmtErr e ++ " " ++ fmtGMem g)
          | .panic => (st, "panic")
        | "gr.load" => (st, fmtRes (reg.load (ty kv) a) (fun x => s!"ok data={hexEncode x}"))
        | "gr.last" => (st, fmtRes reg.lastAddr (fun x => s!"ok {x}"))
        | "gr.co" => (st, match reg.checkedOffset a (kv.nat "off") with | some v => s!"ok some {v}" | none => "ok none")
        | "gr.tra" => (st, match reg.toRegionAddr a with | some v => s!"ok some {v}" | none => "ok none")
        | "gr.host" => (st, fmtRes (reg.getHostAddress a) (fun p => s!"ok {p - reg.mem.base}"))
        | "gr.slice" => (st, fmtRes (reg.getSlice a (kv.nat "cnt")) (fun s => s!"ok {(s.addr : Int) - reg.mem.base} {s.size}"))
        | "gr.rvf" | "gr.revf" =>
          match tget st.rds (kv.nat "rd") with
          | none => (st, "bad-id")
          | some rd =>
            if op = "gr.rvf" then
              let (r', rd', x) := reg.readVolatileFrom a rd (kv.nat "count")
              ({ putR r' with rds := tset st.rds (kv.nat "rd") rd' },
                fmtRes x (fun n => s!"ok n={n}") ++ s!" {fmtGMem (g.setRegion i r')} left={rd'.avail.length} pos={rd'.pos}")
            else
              let (r', rd', x) := reg.readExactVolatileFrom a rd (kv.nat "count")
              ({ putR r' with rds := tset st.rds (kv.nat "rd") rd' },
                fmtRes x (fun _ => "ok") ++ s!" {fmtGMem (g.setRegion i r')}")
        | "gr.wvt" | "gr.wavt" =>
          match tget st.wrs (kv.nat "wr") with
          | none => (st, "bad-id")
          | some wr =>
            if op = "gr.wvt" then
              let (wr', x) := reg.writeVolatileTo a wr (kv.nat "count")
              ({ st with wrs := tset st.wrs (kv.nat "wr") wr' },
                fmtRes x (fun n => s!"ok n={n}") ++ s!" sink={hexEncode wr'.buf} pos={wr'.pos}")
            else
              let (wr', x) := reg.writeAllVolatileTo a wr (kv.nat "count")
              ({ st with wrs := tset st.wrs (kv.nat "wr") wr' },
                fmtRes x (fun _ => "ok") ++ s!" sink={hexEncode wr'.buf} pos={wr'.pos}")
        | _ => (st, "bad-op")

def stepGuest (st : St) (op : String) (kv : KV) : St × String := stepGuest1 st op kv

/-! ### construction (C15), lifetime (C12), replaceable map (C11) -/
def fmtBErr : Construct.BErr → String
  | .invalidOffsetLength => "err offlen" | .invalidPointer => "err pointer" | .mapFixed => "err mapfixed"
  | .mappingPastEof => "err pasteof" | .mmapFailed => "err mmap" | .invalidGuestRegion => "err invalidregion"
  | .invalidFileOffset => "err nofile" | .mmapFlags w => s!"err xenflags {w}" | .ioctlFailed => "err ioctl"

def optNat (kv : KV) (k : String) : Option Nat := if kv.str k = "none" || kv.str k = "" then none else kv.nat? k

def stepConstruct (op : String) (kv : KV) : String :=
  let file : Option Construct.FileReq := match optNat kv "flen" with
    | some l => some { fileLen := l, start := kv.nat "fstart" } | none => none
  match op with
  | "k.build" =>
    let r : Construct.BuildReq := { size := kv.nat "size", prot := kv.nat "prot", flags := kv.nat "flags", file := file, rawPtr := optNat kv "raw" }
    let kernel := if kv.nat "kernel" = 1 then some 0 else none
    match Construct.build r (kv.nat "page") kernel with
    | (.ok b, called) => s!"ok size={b.size} prot={b.prot} flags={b.flags} fstart={match b.fileStart with | some x => toString x | none => "none"} owned={b.owned} called={called}"
    | (.error e, called) => s!"{fmtBErr e} called={called}"
  | "k.region" =>
    match Construct.guestRegionNew { addr := 0, size := kv.nat "size", prot := 0, flags := 0, fileStart := none, owned := true } (kv.nat "base") with
    | .ok _ => "ok" | .error e => fmtBErr e
  | "k.overlap" =>
    let rng (a b : String) : Option (Nat × Nat) := match optNat kv a with | some s => some (s, kv.nat b) | none => none
    match Construct.fdsOverlap (kv.nat "same" = 1) (rng "s1" "l1") (rng "s2" "l2") with
    | .ok b => s!"ok {b}" | .err _ => "err" | .panic => "panic"
  | "k.xenflags" => s!"{Construct.xenFlagsAccepted (BitVec.ofNat 32 (kv.nat "w"))}"
  | "k.xen" =>
    let r : Construct.XenReq := { size := kv.nat "size", file := file, flags := optNat kv "flags", xenFlags := BitVec.ofNat 32 (kv.nat "w") }
    match Construct.xenValidate r with | .ok _ => "ok" | .error e => fmtBErr e
  | _ => "bad-op"

def fmtLife (s : Lifetime.St) : String :=
  "ok " ++ ",".intercalate (s.maps.map fun m => s!"{m.rid}:{m.mapped}")

def stepLife (st : St) (op : String) (kv : KV) : St × String :=
  let hid := kv.nat "hid"
  let lop : Option Lifetime.Op := match op with
    | "l.create" => some (.create hid (kv.nat "rid") (kv.nat "owned" = 1))
    | "l.build" => some (.build hid (kv.natList "parts"))
    | "l.insert" => some (.insert hid (kv.nat "src") (kv.nat "reg"))
    | "l.remove" => some (.remove hid (kv.nat "hreg") (kv.nat "src") (kv.nat "rid"))
    | "l.clone" => some (.clone hid (kv.nat "src"))
    | "l.drop" => some (.drop hid)
    | _ => none
  match op, lop with
  | "l.reset", _ => ({ st with life := {} }, "ok ")
  | "l.fail", _ => (st, fmtLife st.life)       -- a refused construction creates no mapping and no handle
  | _, some o => let s' := Lifetime.step st.life o; ({ st with life := s' }, fmtLife s')
  | _, none => (st, "bad-op")

def fmtAtom (s : Atomic.St) (ret : Option Nat) : String :=
  let r := match ret with | some x => toString x | none => "-"
  let owners := ",".intercalate (s.owners.map fun (o, m) => s!"{o}:{m}")
  let freed := ",".intercalate ((s.freed.mergeSort (· ≤ ·)).map toString)
  s!"ok ret={r} cur={s.cur} locked={s.lock.isSome} owners={owners} freed={freed}"

def stepAtom (st : St) (op : String) (kv : KV) : St × String :=
  let aop : Option Atomic.Step := match op with
    | "t.snapshot" => some (.snapshot (kv.nat "o"))
    | "t.clone" => some (.cloneOwner (kv.nat "o") (kv.nat "src"))
    | "t.drop" => some (.dropOwner (kv.nat "o"))
    | "t.lock" => some (.lock (kv.nat "t"))
    | "t.replace" => some (.replace (kv.nat "t") (kv.nat "new"))
    | "t.unlock" => some (.unlock (kv.nat "t"))
    | _ => none
  match op, aop with
  | "t.init", _ => let s := Atomic.init (kv.nat "m"); ({ st with atom := s }, fmtAtom s none)
  | "t.probedone", _ =>
    -- the updater that had to wait (`t.lock … probe=1`) gets the lock, then replaces (new ≠ 0) or unlocks
    let t := kv.nat "t"
    let (s1, _) := Atomic.step st.atom (.lock t)
    let (s2, _) := if kv.nat "new" ≠ 0 then Atomic.step s1 (.replace t (kv.nat "new")) else Atomic.step s1 (.unlock t)
    ({ st with atom := s2 }, fmtAtom s2 none)
  | "t.space", _ => (st, fmtAtom st.atom none)     -- `GuestAddressSpace for &M / Rc<M> / Arc<M>`: no step of the replaceable cell
  | _, some a => let (s', r) := Atomic.step st.atom a; ({ st with atom := s' }, fmtAtom s' r)
  | _, none => (st, "bad-op")

/-! `xbuild` world: `MmapRegion::from_range` of the Xen build against the kernel-state model -/
def sortPairs (l : List (Nat × Nat)) : List (Nat × Nat) :=
  (l.toArray.qsort (fun a b => a.1 < b.1 || (a.1 == b.1 && a.2 < b.2))).toList

def fmtXK (k : XenBuild.Kernel) : String :=
  s!"maps={k.maps.length} grants={",".intercalate ((sortPairs k.grants).map fun (i, c) => s!"{i}:{c}")}"

def stepXBuild (st : St) (op : String) (kv : KV) : St × String :=
  match op with
  | "x.reset" => ({ st with xk := {}, xregs := #[] }, "ok")
  | "x.new" =>
    let file : Option Construct.FileReq := match optNat kv "flen" with
      | some l => some { fileLen := l, start := kv.nat "fstart" } | none => none
    let r : XenBuild.Req := { size := kv.nat "size", file := file, prot := optNat kv "prot", flags := optNat kv "flags",
                              xenFlags := BitVec.ofNat 32 (kv.nat "w"), xenData := kv.nat "data", guestBase := kv.nat "base" }
    let sc : XenBuild.Script := (kv.natList "sc").map (· != 0)
    let res := match optNat kv "greg" with
      | some g => XenBuild.guestRegionFromRange r g (kv.nat "page") st.xk sc
      | none => XenBuild.fromRange r (kv.nat "page") st.xk sc
    match res with
    | (.ok reg, k', _) =>
      ({ st with xk := k', xregs := tset st.xregs (kv.nat "id") reg },
       s!"ok size={reg.size} prot={reg.prot} flags={reg.flags} fstart={match reg.fileStart with | some x => toString x | none => "none"} xf={reg.xenFlags} xd={reg.xenData} {fmtXK k'}")
    | (.error e, k', _) => ({ st with xk := k' }, s!"{fmtBErr e} {fmtXK k'}")
  | "x.drop" =>
    match tget st.xregs (kv.nat "id") with
    | some reg =>
      let k' := XenBuild.dropMap st.xk reg.map 4096
      ({ st with xk := k', xregs := st.xregs.set! (kv.nat "id") none }, s!"ok {fmtXK k'}")
    | none => (st, "bad-op")
  | _ => (st, "bad-op")

def step (st : St) (line : String) : St × String :=
  let (op, kv) := parseLine line
  if op = "" then (st, "")
  else if op = "prof" then ({ st with chk := kv.nat "chk" = 1 }, "ok")
  else if op = "c.copy" then (st, fmtTrace (copySliceTrace (w64 kv "src") (w64 kv "dst") (kv.nat "total")))
  else if op = "c.atomic" then
    -- atomic load/store of `ts` bytes at offset `off` of a slice based at `base` with `size` bytes:
    -- refused unless in bounds and the real location is aligned (get_atomic_ref / Bytes::store,load)
    let s : VSlice := { addr := kv.nat "base", size := kv.nat "size", bmBase := 0 }
    (st, fmtRes (s.alignedRef (kv.nat "off") ⟨kv.nat "ts", kv.nat "ts"⟩) (fun _ => "ok"))
  else if op.startsWith "a." then (st, stepAddr st op kv)
  else if op.startsWith "e." then (st, stepEndian op kv)
  else if op.startsWith "b." then stepBitmap st op kv
  else if op.startsWith "p." then stepProgram st op kv
  else if op.startsWith "k." then (st, stepConstruct op kv)
  else if op.startsWith "x." then stepXBuild st op kv
  else if op.startsWith "l." then stepLife st op kv
  else if op.startsWith "t." then stepAtom st op kv
  else if op.startsWith "s." then stepSlice st op kv
  else if op.startsWith "rd." || op.startsWith "wr." then stepStream st op kv
  else if op.startsWith "g." || op.startsWith "gr." then stepGuest st op kv
  else (st, "bad-op")

partial def loop (h : IO.FS.Stream) (out : IO.FS.Stream) (st : St) : IO Unit := do
  let line ← h.getLine
  if line.isEmpty then return ()
  let (st', o) := step st line
  out.putStrLn o
  loop h out st'

end Driver

def main : IO Unit := do
  let stdin ← IO.getStdin
  let stdout ← IO.getStdout
  Driver.loop stdin stdout {}
