/-
  Driver.Proto — line protocol shared with the Rust harness: `op k=v k=v …`.
  Numbers are decimal; byte strings are lowercase hex; lists are comma separated.
-/
import VmMem.Model.Basic
import VmMem.Model.Io
namespace Driver
open VmMem

abbrev KV := List (String × String)

def parseLine (line : String) : String × KV :=
  match (line.trimAscii.toString.splitOn " ").filter (· ≠ "") with
  | [] => ("", [])
  | op :: rest =>
    (op, rest.filterMap fun t =>
      match t.splitOn "=" with
      | [k, v] => some (k, v)
      | [k] => some (k, "")
      | _ => none)

def KV.str (kv : KV) (k : String) : String := (kv.lookup k).getD ""
def KV.nat? (kv : KV) (k : String) : Option Nat := (kv.lookup k).bind String.toNat?
def KV.nat (kv : KV) (k : String) : Nat := (KV.nat? kv k).getD 0

def hexVal (c : Char) : Nat :=
  if '0' ≤ c ∧ c ≤ '9' then c.toNat - '0'.toNat
  else if 'a' ≤ c ∧ c ≤ 'f' then c.toNat - 'a'.toNat + 10
  else 0

partial def hexDecodeAux : List Char → List UInt8 → List UInt8
  | a :: b :: rest, acc => hexDecodeAux rest (UInt8.ofNat (hexVal a * 16 + hexVal b) :: acc)
  | _, acc => acc.reverse

def hexDecode (s : String) : List UInt8 := hexDecodeAux s.toList []

def hexDigit (n : Nat) : Char := if n < 10 then Char.ofNat (n + 48) else Char.ofNat (n - 10 + 97)

def hexEncode (bs : List UInt8) : String :=
  String.ofList (bs.foldr (fun b acc => hexDigit (b.toNat / 16) :: hexDigit (b.toNat % 16) :: acc) [])

def KV.bytes (kv : KV) (k : String) : List UInt8 := hexDecode (KV.str kv k)

def KV.natList (kv : KV) (k : String) : List Nat :=
  ((KV.str kv k).splitOn ",").filterMap String.toNat?

/-- script syntax: `F` full, `S<k>` short, `Z` zero, `I` eintr, `E` fail; comma separated -/
def parseScript (s : String) : List Beh :=
  (s.splitOn ",").filterMap fun t =>
    match t.toList with
    | ['F'] => some .full
    | ['Z'] => some .zero
    | ['I'] => some .eintr
    | ['E'] => some .fail
    | 'S' :: ds => (String.ofList ds).toNat?.map .short
    | _ => none

def fmtErr : Err → String
  | .outOfBounds => "err oob"
  | .overflow => "err overflow"
  | .tooBig => "err toobig"
  | .misaligned => "err misaligned"
  | .partialBuffer e c => s!"err partial exp={e} done={c}"
  | .ioError k => s!"err io k={k}"
  | .invalidGuestAddress a => s!"err invalidaddr a={a}"
  | .invalidBackendAddress => "err backend"
  | .hostAddressNotAvailable => "err nohost"
  | .callbackOutOfRange => "err cboor"
  | .guestAddressOverflow => "err gaoverflow"

def fmtRes {α} (r : Res α) (f : α → String) : String :=
  match r with
  | .ok a => f a
  | .err e => fmtErr e
  | .panic => "panic"

def fmtWords (ws : List (BitVec 64)) : String :=
  ",".intercalate (ws.map fun w => toString w.toNat)

end Driver
