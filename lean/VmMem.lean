import VmMem.Model.Basic
import VmMem.Model.Addr
import VmMem.Model.Endian
import VmMem.Model.Bitmap
import VmMem.Model.Volatile
import VmMem.Model.Copy
import VmMem.Model.Io
import VmMem.Model.Guest
