#!/usr/bin/env python3
"""Pins the proof obligations: writes lean/theorems.json = {Cnn: [fully qualified theorem names]} from the
`#print axioms` lines of lean/VmMem/Props/Cnn.lean.  Run by hand after adding theorems; ./check reads the
pinned list, so deleting a theorem from a Props file makes its obligation fail instead of vanish."""
import glob, json, os, re
ROOT = os.path.dirname(os.path.dirname(os.path.abspath(__file__)))
out = {}
for f in sorted(glob.glob(os.path.join(ROOT, "lean/VmMem/Props/C*.lean"))):
    c = os.path.basename(f)[:-5]
    txt = open(f).read()
    ns = re.search(r"^namespace\s+(\S+)", txt, re.M)
    # namespaces may be opened in two steps (`namespace VmMem` … `namespace C19`)
    spaces = re.findall(r"^namespace\s+(\S+)", txt, re.M)
    prefix = ".".join(spaces[:2]) if spaces and spaces[0] == "VmMem" and len(spaces) > 1 and not spaces[0].count(".") else (spaces[0] if spaces else "")
    if prefix == "VmMem" or not prefix.startswith("VmMem"):
        prefix = "VmMem." + c
    names = [l.split()[2] for l in txt.splitlines() if l.startswith("#print axioms ")]
    out[c] = [n if n.startswith("VmMem.") else prefix + "." + n for n in names]
json.dump(out, open(os.path.join(ROOT, "lean/theorems.json"), "w"), indent=1)
print({k: len(v) for k, v in out.items()})
