HOOKS = {
    "guard": "vm_memory_verif",
    "enable": "RUSTFLAGS=\"--cfg vm_memory_verif\" (set for the harness by /verif/harness/.cargo/config.toml)",
    "baseline_off_cmd": "cd /repo && cargo test --workspace --no-fail-fast --offline",
    "source_commits": ["be3842d verif hook H1: copy trace", "9dbbbb5 verif hook H2: AtomicU64 stand-in", "d7a8125 + 941d4a8 + 52e524e verif hook H3: emulated Xen ioctls (failure injection, query/disarm)", "7dfeb1f verif hook H4: replace scope (is the update mutex held when the new map is stored)"],
    "add_only": True,
}
NOT_YET = {}
PROOF_NOTE = ("Trusted: Lean 4.33 kernel; axioms propext, Classical.choice, Quot.sound only (audited by #print axioms on every listed theorem; "
              "no native_decide/bv_decide/sorry); the hand-written model; the correspondence harness (vmverif), its generators and oracles; rustc/cargo. ")
META = {
    "C19": {
        "text": "Every checked/overflowing/unchecked/align-up/mask/compare operation of the address types is proved, for all 64-bit operands and all 64 "
                "alignments, to return exactly the mathematically exact result or the documented overflow indication (27 theorems over BitVec 64). "
                "The model is tied to address.rs by running both GuestAddress and MemoryRegionAddress and the model on structured x structured pairs, all alignments and random pairs, "
                "in builds with and without overflow checks, plus an independent u128 oracle.",
        "design_ref": "DESIGN.md 6/C19",
        "note": PROOF_NOTE + "Modelled rather than verified: the u64 integer intrinsics (their documented semantics are the model primitives).",
        "technique": "Lean 4 theorems over BitVec 64 + model/implementation differential run + u128 oracle",
    },
    "C20": {
        "text": "Round trip, wire byte order, equality with native integers and read-back from memory are proved for every width k, every value < 256^k, both byte orders and both host endiannesses "
                "(13 theorems); the model is tied to endian.rs by exhaustive runs over all 16-bit values for Le16/Be16, byte-structured (identical halves, fill patterns, palindromes, zero runs) and random values for the 32/64/size types "
                "(all 2^32 values for Le32/Be32 in the thorough tier, oracle only), storing through write_obj and reading raw bytes back.",
        "design_ref": "DESIGN.md 6/C20",
        "note": PROOF_NOTE + "The harness host is little-endian: the big-endian half of the statement is covered by the theorems only. to_le/to_be are modelled as identity/byte swap.",
        "technique": "Lean 4 theorems over byte lists (both hosts) + exhaustive 16-bit differential run",
    },
    "C01": {
        "text": "Containment of every derived accessor in its parent and in the root, for chains of derivations of ANY depth (induction over the op list), exact acceptance "
                "conditions of every bounds check (both directions, so > vs >= is pinned), alignment of typed/atomic references, isize bound of arrays, absence of panics, "
                "and in-bounds-ness of every later raw access are proved; the provided typed accessors are also modelled over ANY implementor's get_slice (typedVia: an accessor is handed out only if it is exactly the slice get_slice returned) (75 theorems). The model is tied to volatile_memory.rs by random derivation chains over roots of size 0..300 "
                "with every base skew and boundary/overflowing operands, on four bitmap flavours, in checked and unchecked builds; an independent containment/alignment/acceptance oracle "
                "and canary bytes around the root run on the real pointers; the guest/region-level get_slice/get_host_address run in the gm world; a third-party VolatileMemory whose get_slice comes back short is probed.",
        "design_ref": "DESIGN.md 6/C01",
        "note": PROOF_NOTE + "Not modelled: that the root handed to the unsafe constructors is a live allocation; Rust aliasing/provenance. MmapRegion/GuestRegionMmap/GuestMemory::get_slice are exercised by the gm world (C02/C03).",
        "technique": "Lean 4 induction over derivation chains + differential run against real pointer extents",
    },
    "C09": {
        "text": "AtomicBitmap refines a set of page numbers under every operation and every finite operation history incl. enlarge/clone/nested slices (35 theorems: Inv preserved, "
                "mark/clear = exactly the overlapped pages, out-of-range ignored, get_and_reset returns the set and empties it, no index >= size ever appears). Tied to atomic_bitmap.rs/slice.rs by "
                "small-universe enumeration (sizes x page sizes x ranges, oracle-exhaustive in the thorough tier) and random histories with extreme ranges, vs the model and a BTreeSet oracle.",
        "design_ref": "DESIGN.md 6/C09",
        "note": PROOF_NOTE + "enlarge with byte_size+add >= 2^64 is outside the property (VMM-chosen operand): proved to panic in checked builds; the unchecked wrap is followed by the model (enlargeUnchecked) but not claimed.",
        "technique": "Lean 4 refinement proof (bitmap -> set of pages) + exhaustive small-universe differential run",
    },
}

META.update({
    "C02": {
        "text": "For every well-formed layout (any number of regions, any sizes, adjacent or with holes, up to the top of the address space) find_region, to_region_addr, address_in_range, "
                "check_address, checked_offset, last_addr, get_host_address, get_slice and check_range are proved equal to the set-theoretic reading, last_addr for every iteration order of the regions (33 theorems; check_range by induction over the try_access loop). "
                "Tied to guest_memory.rs / mmap/mod.rs by an exhaustive small universe (every address 0..25 x every length 0..26 x random small layouts incl. 1-byte regions and holes) and large layouts probed at boundaries, "
                "on GuestMemoryMmap AND a linear-scan implementation that relies on every provided default and keeps its regions in plug order, also after insert/remove histories; interval-set oracle; a hand-written region type ending exactly at 2^64 is probed (this found defect D9, fixed).",
        "design_ref": "DESIGN.md 6/C02", "note": PROOF_NOTE + "binary_search_by_key is a model parameter with its documented contract.",
        "technique": "Lean 4 proof over sorted-disjoint layouts + exhaustive small-universe differential run on two GuestMemory implementations",
    },
    "C04": {
        "text": "Every data-moving operation of a volatile container (buffer/object/atomic/ref/array/element-wise/slice-to-slice) is proved to store or return exactly the addressed window "
                "(bytes' = splice bytes w d), report the cut-off count, leave all other bytes unchanged, error exactly when it starts at/past the end, and all routes read back what any route stored; histories by induction (102 theorems). "
                "Tied to volatile_memory.rs by op histories over containers 0..300 bytes, all skews, 18 element types, lengths around the 8-byte threshold, overlapping copies; Vec<u8> mirror oracle + canaries.",
        "design_ref": "DESIGN.md 6/C04", "note": PROOF_NOTE + "memmove/volatile intrinsics move the bytes they name (trusted).",
        "technique": "Lean 4 frame/effect theorems for every accessor + differential histories against a byte mirror",
    },
    "C05": {
        "text": "Soundness of dirty tracking: for every mutating op through an accessor derived by ANY chain (Tracks invariant proved preserved by every derivation), every changed byte lies on a page that is dirty afterwards, "
                "for every page size and interleaved resets (ghost-snapshot invariant over histories); failing descriptor reads mark their whole target (44 theorems); and, because every operation stores BEFORE it marks, it stays sound with any number of concurrent harvests between its store and its mark, whereas mark-then-store is refuted by a concrete counter-example (Props/C05h, 45 theorems). "
                "Tied by slice-world and guest-memory histories with page sizes 1..>size, tracking bitmaps built directly or grown from empty by enlarge, five bitmap flavours (one of them a probe written against the public traits that snapshots the marked bytes at mark time, so the store/mark ORDER is observed), random data, resets; diff-driven oracle on every region's bitmap.",
        "design_ref": "DESIGN.md 6/C05", "note": PROOF_NOTE + "Raw-pointer/reference writes are exempt by the statement.",
        "technique": "Lean 4 invariant (bitmap offset tracks address) + per-op effect lemmas + differential run with diff-driven oracle",
    },
    "C16": {
        "text": "Precision: a write of n>0 bytes marks exactly the pages overlapping the written window (newly_dirty_iff, page_end_exact), reads/rejected requests mark nothing, PartialBuffer marks exactly the stored prefix (25 theorems). "
                "Same differential runs as C05 with the oracle comparing the full bitmap both ways after every op (fd sinks that fail included), plus the schedule scenarios of the atomic world (a page must not turn dirty again after a harvest without a write).",
        "design_ref": "DESIGN.md 6/C16", "note": PROOF_NOTE,
        "technique": "Lean 4 exact-mark equations + differential run comparing whole bitmaps",
    },
    "C10": {
        "text": "from_arc_regions / insert_region / remove_region are proved to succeed exactly for sorted-disjoint inputs with the documented error otherwise, to return a well-formed map that is a permutation of old +/- the region, "
                "and to keep every other region; histories by induction; regions past 2^64 refused (30 theorems). Tied by insert/remove histories (1-byte overlap, duplicate start, adjacency, wrong size, top of address space) "
                "with every earlier map kept alive and re-observed after each step.",
        "design_ref": "DESIGN.md 6/C10", "note": PROOF_NOTE + "Persistence of the old map is definitional in the model; in Rust it rests on &self + Vec<Arc<_>> (trusted, exercised).",
        "technique": "Lean 4 proofs (Perm / well-formedness) + differential edit histories re-observing all live maps",
    },
    "C13": {
        "text": "Each adapter (&[u8], &mut [u8], Vec<u8>, Cursor read/write) composed with the container semantics is proved equal to a transcription of its std::io counterpart for all contents, positions and buffer lengths, "
                "sequences of calls by induction, exact variants ok iff std's, never beyond the buffer (25 theorems). Tied by three-way runs: the crate on real adapters and descriptors, the model, and a byte oracle.",
        "design_ref": "DESIGN.md 6/C13", "note": PROOF_NOTE + "The std side of the theorems is my transcription of the std documentation; descriptors are the kernel's.",
        "technique": "Lean 4 equivalence with a std model + differential run over every adapter",
    },
    "C14": {
        "text": "For ALL fault scripts of any length: EINTR is never reported and is equivalent to deleting the interrupted calls, bytes consumed are exactly the bytes stored at consecutive addresses (splice equation), "
                "exact forms ok iff the full count moved, errors end the transfer and are reported, frame outside the prefix, loop fuel never runs out — at slice level (27 theorems) and at guest-memory level through try_access across region boundaries and into holes (29 theorems). Tied by scripted streams (full/short/zero/EINTR/fail) "
                "at slice, region and guest-memory level incl. ranges spanning regions and ending in holes; consumed/delivered-bytes oracle.",
        "design_ref": "DESIGN.md 6/C14", "note": PROOF_NOTE + "Slice level in Props/C14, guest-memory level (ranges spanning regions, ending in holes) in Props/C14g.",
        "technique": "Lean 4 induction over fault scripts + scripted-stream differential run",
    },
    "C17": {
        "category": "proof",
        "text": "PARTIAL (kernel mapping of the real gntdev trusted). Guard length = bytes covered and guard pointer = first byte for slices, refs and arrays (full strength after the fix: commit for the array guard); for on-demand Xen mappings the requested window is proved to cover "
                "every byte of the guard for all page sizes/offsets/lengths and every access sequence leaves no mapping; at the system-call level an on-demand access leaves nothing behind and releases nothing twice whether it completes or the device refuses (C17x) (16 theorems). The correspondence run observes ptr_guard()/ptr_guard_mut() of every accessor kind and "
                "element type in the standard build, and in the xen-feature build (hook H3) runs histories over UNIX, foreign, advance-mapped and on-demand grant regions checking that every page an operation touches lies inside a window requested during that operation (an operation performed as several accesses has one window per access), "
                "that every window is released, that data lands at file offset ref*page+offset, plus forked probes of the guard-bypassing paths.",
        "design_ref": "DESIGN.md 6/C17", "note": PROOF_NOTE + "Xen half: emulated ioctls (hook H3), not a real Xen host.",
        "technique": "Lean 4 window arithmetic + differential run on guard extents (standard build)",
    },
    "C18": {
        "text": "Zero-length buffer/slice/object accesses are proved to be successful no-ops at EVERY offset of a container, zero-sized element copies and refs/arrays too, nothing marked (47 theorems incl. the guest-memory layer, C18g). "
                "Tied by slice- and guest-memory-level runs over mapped, hole, 0 and u64::MAX addresses, empty containers and the three zero-sized element types, in checked and unchecked builds, and in the xen-feature build (both profiles) with the grant device told to refuse its next request before every zero-length access.",
        "design_ref": "DESIGN.md 6/C18", "note": PROOF_NOTE + "Four defects found here were repaired by fix: commits (see known_findings.json).",
        "technique": "Lean 4 no-op theorems + differential run with a zero-length oracle at all three layers",
    },
    "C03": {
        "text": "Guest-level write/read/write_slice/read_slice/write_obj/read_obj/store/load are proved, by induction over the try_access loop for every well-formed layout, to behave as one flat sparse byte array: "
                "count = longest mapped run capped at the buffer, each byte lands in the owning region/offset across region boundaries, InvalidGuestAddress iff the first byte is unmapped, PartialBuffer{expected,completed} otherwise, "
                "frame, round trip through every route incl. region-level and host pointer, histories refine the flat spec; for EVERY layout the walk stops at the last address (never continues at address 0: defect D9, fixed; wrap_before_fix / no_wrap_after_fix) (58 theorems). Tied by mixed histories over touching regions, 1-byte holes, "
                "regions ending at u64::MAX-1, anonymous and file-backed, on two GuestMemory implementations, with maps derived by insert/remove sharing regions; flat-array oracle re-reading every region after every op.",
        "design_ref": "DESIGN.md 6/C03", "note": PROOF_NOTE + "Xen-UNIX backed regions are not exercised (standard build only). File mapping coherence is the kernel's.",
        "technique": "Lean 4 loop-invariant proof (try_access refines a flat sparse array) + differential histories with a flat-array oracle",
    },
    "C06": {
        "text": "PARTIAL (hardware atomicity is trusted). Proved for all addresses and lengths: alignment() is the largest power of two dividing the address, the copy plan tiles [0,total) contiguously, every primitive access is naturally aligned on both sides, "
                "an aligned 1/2/4/8-byte transfer is exactly ONE access of that width, > 8 bytes is one bulk copy (17 theorems). Tied through hook H1: the logged accesses of every funnelling entry point (19 buffer forms + 6 object forms at slice, region and guest-memory level, stream adapters) "
                "for total 1..17 x src mod 8 x dst mod 8 exhaustively must equal the model's plan; oracle: aligned 1/2/4/8 => one access; atomic load/store of every atomic type incl. packed user-defined AtomicAccess types at every base alignment in the slice world (misaligned must be refused).",
        "design_ref": "DESIGN.md 6/C06", "note": PROOF_NOTE + "What the CPU/compiler do with one volatile access is trusted; orderings of atomic load/store are std's.",
        "technique": "Lean 4 proof about the access plan + exhaustive trace comparison through a cfg-gated hook",
    },
    "C08": {
        "text": "PARTIAL (SeqCst interleaving semantics trusted). Over ALL lists of atomic steps (hence all interleavings of any number of threads running mark-range, set-bit, reset-range, get_and_reset, clone): once a bit is set it is either still set at the end "
                "or the first step clearing it returned it (no_lost_mark), no phantom pages, same-word marks commute, all these programs are store-free while reset() is all stores (19 theorems + a 4-step counter-example showing load;store would lose marks). "
                "Tied through hook H2: the logged step sequence of every public op equals the model's program; plus exhaustive enumeration of the interleavings of 6 (thorough: 9) 2-3 thread scenarios on the real code via a token scheduler.",
        "design_ref": "DESIGN.md 6/C08", "note": PROOF_NOTE + "Memory-model effects weaker than sequential consistency are outside the model.",
        "technique": "Lean 4 theorem over all atomic-step lists + step-program comparison and exhaustive schedule enumeration through a cfg-gated shim",
    },
    "C11": {
        "text": "PARTIAL (ArcSwap/Mutex atomicity trusted). Over ALL lists of atomic steps (every interleaving of any readers and updaters, every sequential history): a snapshot returns the map that was current at that step, "
                "an owner keeps designating the same never-freed map across any number of replacements, after a completed replace every later snapshot shows it or a later one, the lock is exclusive and the published sequence is exactly "
                "the enabled replaces in order (no lost replace), freed maps never come back (23 theorems). Tied by sequential histories over several handles/guards/owned Arcs on the real GuestMemoryAtomic "
                "(map identity = a tag in memory, layouts repeat, alias maps over the same host memory, liveness via Weak), hook H4 (the new map is stored while the update mutex is held), timed probes of a second updater arriving through another handle while the lock is held (it must wait; when it gets the lock its own replacement must be visible), GuestAddressSpace for &M/Rc/Arc, and in the thorough tier a reader/updater stress on real threads.",
        "design_ref": "DESIGN.md 6/C11", "note": PROOF_NOTE + "ArcSwap's hazard/debt protocol and std Mutex are trusted to implement atomic load/store and mutual exclusion.",
        "technique": "Lean 4 invariant over all step lists + sequential differential run (+ thread stress)",
    },
    "C12": {
        "text": "PARTIAL (programs quantifier by corpus). For every history of create/build/insert/remove/clone/snapshot/drop in any order: an owned mapping is mapped iff some live handle reaches it, is unmapped exactly once when the last owner goes, "
                "external mappings are never unmapped, no live handle designates an unmapped resource (reachable_inv over all histories); the same for the Xen mappings at the system-call level over a kernel-state model: after any history of constructions (any failing system calls) and drops in any order the kernel holds exactly what the live regions own, nothing is released twice (C12x.run_inv, history_no_fault, all_dropped_nothing_mapped) (25 theorems). Tied by histories on file-backed regions over uniquely named files with /proc/self/maps read after every step "
                "and every live handle re-read; region sizes vary (page multiples, partial last page, sub-page), constructions that fail, owners dropped during unwinding; the executable's own mmap/munmap see a second release of one mapping; the xbuild world for Xen mappings. The 'must not compile' half is decided by a corpus of 32 escaping-accessor programs + 8 controls compiled against /repo.",
        "design_ref": "DESIGN.md 6/C12", "note": PROOF_NOTE + "No Lean model of the borrow checker: the corpus is a test, labelled as such.",
        "technique": "Lean 4 ownership invariant over all histories + /proc/self/maps differential run + compile-fail corpus",
    },
    "C15": {
        "text": "PARTIAL (kernel file coherence observed). build() succeeds iff no MAP_FIXED, the file range neither overflows nor passes EOF and the kernel accepted; each error variant iff its cause in source precedence; "
                "a built region reports exactly the request; a failed build never leaves a mapping; raw pointers must be page aligned; base+size beyond 2^64 refused; Xen flag words accepted iff in {0,1,2,0xa} for ALL 2^32 words (structural proof); MmapRegion::from_range of the Xen build at the system-call level: a failed construction (refused request, failing mmap, failing ioctl, guest region past 2^64) leaves neither a mapping nor a grant mapping and releases nothing twice, a built region reports the request, fds_overlap = the file ranges intersect (50 theorems). "
                "Tied by requests around EOF/overflow boundaries, flag sets incl. MAP_FIXED, aligned/misaligned raw pointers, /proc/self/maps before/after failures, pread/pwrite vs region bytes for shared file mappings (offsets up to 10 GiB), the older constructors (from_file/build/build_raw), a long-lived FileOffset whose file changes length, and in the xen-feature build the xbuild world: every flag word 0..0xffff, missing file, non-zero offset, MAP_FIXED, failing mmap/ioctl injected through hook H3 (this found defect D7, fixed).",
        "design_ref": "DESIGN.md 6/C15", "note": PROOF_NOTE + "The kernel is a parameter of the model.",
        "technique": "Lean 4 acceptance-condition theorems + differential run with an independent acceptance predicate and /proc/self/maps",
    },
    "C07": {
        "text": "For every public access/query entry point of slices (20 request kinds incl. all stream forms with ANY reader/writer kind and script), bitmaps (8) and guest memory (21), every operand value, under the constructor invariants, the model "
                "result is proved not to be a panic; since plain + - * / , unwrap, indexing and asserts are modelled as panicking primitives this covers overflow in checked builds, division by zero and index/unwrap panics, and "
                "checked/unchecked builds agree; termination is by Lean's totality with explicit measures and loop fuel proved sufficient; the documented index panics are stated exactly; alignment() of a null address (defect D8, fixed) (31 theorems). "
                "Tied by running every entry point with the boundary-heavy 64-bit operand distribution under catch_unwind in BOTH a release build and a build with overflow checks + debug assertions, in the standard and in the xen-feature build (zero-length sweep at window boundaries).",
        "design_ref": "DESIGN.md 6/C07", "note": PROOF_NOTE + "Allocation failure and stack overflow are not modelled.",
        "technique": "Lean 4 no-panic theorems over request enumerations + differential run in checked and unchecked builds",
    },
})
