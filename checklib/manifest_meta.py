HOOKS = {
    "guard": "vm_memory_verif",
    "enable": "RUSTFLAGS=\"--cfg vm_memory_verif\" (set for the harness by /verif/harness/.cargo/config.toml)",
    "baseline_off_cmd": "cd /repo && cargo test --workspace --no-fail-fast --offline",
    "source_commits": [],
    "add_only": True,
}
NOT_YET = {}
PROOF_NOTE = ("Trusted: Lean 4.33 kernel; axioms propext, Classical.choice, Quot.sound only (audited by #print axioms on every listed theorem; "
              "no native_decide/bv_decide/sorry); the hand-written model; the correspondence harness (vmverif), its generators and oracles; rustc/cargo. ")
META = {
    "C19": {
        "text": "Every checked/overflowing/unchecked/align-up/mask/compare operation of the address types is proved, for all 64-bit operands and all 64 "
                "alignments, to return exactly the mathematically exact result or the documented overflow indication (27 theorems over BitVec 64). "
                "The model is tied to address.rs by running both GuestAddress and MemoryRegionAddress and the model on structured x structured pairs, all alignments and random pairs, "
                "in builds with and without overflow checks, plus an independent u128 oracle.",
        "design_ref": "DESIGN.md 6/C19",
        "note": PROOF_NOTE + "Modelled rather than verified: the u64 integer intrinsics (their documented semantics are the model primitives).",
        "technique": "Lean 4 theorems over BitVec 64 + model/implementation differential run + u128 oracle",
    },
    "C20": {
        "text": "Round trip, wire byte order, equality with native integers and read-back from memory are proved for every width k, every value < 256^k, both byte orders and both host endiannesses "
                "(13 theorems); the model is tied to endian.rs by exhaustive runs over all 16-bit values for Le16/Be16, structured and random values for the 32/64/size types "
                "(all 2^32 values for Le32/Be32 in the thorough tier, oracle only), storing through write_obj and reading raw bytes back.",
        "design_ref": "DESIGN.md 6/C20",
        "note": PROOF_NOTE + "The harness host is little-endian: the big-endian half of the statement is covered by the theorems only. to_le/to_be are modelled as identity/byte swap.",
        "technique": "Lean 4 theorems over byte lists (both hosts) + exhaustive 16-bit differential run",
    },
}
