HOOKS = {
    "guard": "vm_memory_verif",
    "enable": "RUSTFLAGS=\"--cfg vm_memory_verif\" (set for the harness by /verif/harness/.cargo/config.toml)",
    "baseline_off_cmd": "cd /repo && cargo test --workspace --no-fail-fast --offline",
    "source_commits": [],
    "add_only": True,
}
NOT_YET = {}
PROOF_NOTE = ("Trusted: Lean 4.33 kernel; axioms propext, Classical.choice, Quot.sound only (audited by #print axioms on every listed theorem; "
              "no native_decide/bv_decide/sorry); the hand-written model; the correspondence harness (vmverif), its generators and oracles; rustc/cargo. ")
META = {
    "C19": {
        "text": "Every checked/overflowing/unchecked/align-up/mask/compare operation of the address types is proved, for all 64-bit operands and all 64 "
                "alignments, to return exactly the mathematically exact result or the documented overflow indication (27 theorems over BitVec 64). "
                "The model is tied to address.rs by running both GuestAddress and MemoryRegionAddress and the model on structured x structured pairs, all alignments and random pairs, "
                "in builds with and without overflow checks, plus an independent u128 oracle.",
        "design_ref": "DESIGN.md 6/C19",
        "note": PROOF_NOTE + "Modelled rather than verified: the u64 integer intrinsics (their documented semantics are the model primitives).",
        "technique": "Lean 4 theorems over BitVec 64 + model/implementation differential run + u128 oracle",
    },
    "C20": {
        "text": "Round trip, wire byte order, equality with native integers and read-back from memory are proved for every width k, every value < 256^k, both byte orders and both host endiannesses "
                "(13 theorems); the model is tied to endian.rs by exhaustive runs over all 16-bit values for Le16/Be16, structured and random values for the 32/64/size types "
                "(all 2^32 values for Le32/Be32 in the thorough tier, oracle only), storing through write_obj and reading raw bytes back.",
        "design_ref": "DESIGN.md 6/C20",
        "note": PROOF_NOTE + "The harness host is little-endian: the big-endian half of the statement is covered by the theorems only. to_le/to_be are modelled as identity/byte swap.",
        "technique": "Lean 4 theorems over byte lists (both hosts) + exhaustive 16-bit differential run",
    },
    "C01": {
        "text": "Containment of every derived accessor in its parent and in the root, for chains of derivations of ANY depth (induction over the op list), exact acceptance "
                "conditions of every bounds check (both directions, so > vs >= is pinned), alignment of typed/atomic references, isize bound of arrays, absence of panics, "
                "and in-bounds-ness of every later raw access are proved (73 theorems). The model is tied to volatile_memory.rs by random derivation chains over roots of size 0..300 "
                "with every base skew and boundary/overflowing operands, on four bitmap flavours, in checked and unchecked builds; an independent containment/alignment/acceptance oracle "
                "and canary bytes around the root run on the real pointers.",
        "design_ref": "DESIGN.md 6/C01",
        "note": PROOF_NOTE + "Not modelled: that the root handed to the unsafe constructors is a live allocation; Rust aliasing/provenance. MmapRegion/GuestRegionMmap/GuestMemory::get_slice are exercised by the gm world (C02/C03).",
        "technique": "Lean 4 induction over derivation chains + differential run against real pointer extents",
    },
    "C09": {
        "text": "AtomicBitmap refines a set of page numbers under every operation and every finite operation history incl. enlarge/clone/nested slices (35 theorems: Inv preserved, "
                "mark/clear = exactly the overlapped pages, out-of-range ignored, get_and_reset returns the set and empties it, no index >= size ever appears). Tied to atomic_bitmap.rs/slice.rs by "
                "small-universe enumeration (sizes x page sizes x ranges, oracle-exhaustive in the thorough tier) and random histories with extreme ranges, vs the model and a BTreeSet oracle.",
        "design_ref": "DESIGN.md 6/C09",
        "note": PROOF_NOTE + "enlarge with byte_size+add >= 2^64 is outside the property (VMM-chosen operand): proved to panic in checked builds; the unchecked wrap is followed by the model (enlargeUnchecked) but not claimed.",
        "technique": "Lean 4 refinement proof (bitmap -> set of pages) + exhaustive small-universe differential run",
    },
}
