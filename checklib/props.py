"""Per-property configuration of ./check: theorem obligations, harness runs, projections."""


def runs_addr(tier):
    n = 20000 if tier == "quick" else 1000000
    return [{"world": "addr", "n": n}, {"world": "addr", "n": n // 4, "profile": "chk", "seed_off": 7}]


def runs_endian(tier):
    return [{"world": "endian", "n": 20000 if tier == "quick" else 100000, "opts": [] if tier == "quick" else ["all32"]}]


def runs_bitmap(tier):
    if tier == "quick":
        return [{"world": "bitmap", "n": 30000}, {"world": "bitmap", "n": 8000, "profile": "chk", "seed_off": 3}]
    return [{"world": "bitmap", "n": 400000, "opts": ["exhaustive"]}, {"world": "bitmap", "n": 100000, "profile": "chk", "seed_off": 3}]


import json, os
_THMS = json.load(open(os.path.join(os.path.dirname(os.path.dirname(os.path.abspath(__file__))), "lean", "theorems.json")))


def T(pid):
    return _THMS.get(pid, [])


def runs_slice(tier, streams=False):
    n = 60000 if tier == "quick" else 1500000
    o = ["streams"] if streams else []
    return [{"world": "slice", "n": n, "opts": o}, {"world": "slice", "n": n // 3, "opts": o, "profile": "chk", "seed_off": 11}]


DERIVE_OPS = ["s.bv", "s.sub", "s.gsl", "s.off", "s.split", "s.ref", "s.arr", "s.s2a", "s.aref", "s.toslice", "s.refat", "s.guard", "s.new"]

PROPS = {
    "C19": {
        "modules": ["VmMem.Props.C19"],
        "theorems": T("C19"),
        "runs": runs_addr,
        "trusted_base": ["u64 checked_/overflowing_/wrapping intrinsics behave as documented (exercised by the correspondence run and the u128 oracle)"],
        "assumptions": ["64-bit target", "derived Ord/Eq on the address newtypes compare the single field"],
    },
    "C20": {
        "modules": ["VmMem.Props.C20"],
        "theorems": T("C20"),
        "runs": runs_endian,
        "trusted_base": ["uN::to_le/to_be/from_le/from_be are the identity or a byte swap depending on the host (model is parametric in the host; "
                         "the correspondence run observes the little-endian case)", "size/alignment equalities are the crate's compile-time const_assert!, observed at run time"],
        "assumptions": ["harness host is little-endian; the big-endian half is covered by the theorems only"],
    },
    "C01": {
        "modules": ["VmMem.Props.C01"],
        "theorems": T("C01"),
        "runs": lambda tier: with_proj(runs_slice(tier), {"ops": DERIVE_OPS, "drop": ["h=", "d="]})
        + runs_gm(tier, ["mixed"], {"ops": ["g.host", "g.slice", "gr.host", "gr.slice", "g.begin", "g.region", "g.build"], "drop": ["h=", "d="]}, chk=False),
        # C01 talks about which accessor (if any) a request yields: compare derivation ops only
        "trusted_base": ["the caller-provided root really is a live allocation that does not wrap the address space (unsafe fn new/with_bitmap contract)",
                         "raw-pointer arithmetic ptr.add(off) yields address + off (no provenance model)"],
        "assumptions": ["64-bit target"],
    },
    "C09": {
        "modules": ["VmMem.Props.C09"],
        "theorems": T("C09"),
        "runs": runs_bitmap,
        "trusted_base": ["Vec<AtomicU64> indexing / resize_with semantics", "single-threaded use in this property (C08 covers concurrency)"],
        "assumptions": ["enlarge operands are VMM-chosen: byte_size + additional < 2^64 is a hypothesis of enlarge_spec (overflow is covered by enlarge_overflow)"],
    },
}

# ---------------------------------------------------------------------------------------------
QUERY_OPS = ["g.find", "g.tra", "g.air", "g.ca", "g.cr", "g.co", "g.host", "g.slice", "g.last", "g.num", "g.layout", "g.build", "g.region",
             "gr.host", "gr.slice", "gr.co", "gr.tra", "gr.last", "g.begin"]
EDIT_OPS = ["g.begin", "g.region", "g.build", "g.insert", "g.remove", "g.layout", "g.num", "g.last", "g.state"]
STREAM_OPS = ["s.rvf", "s.revf", "s.wvt", "s.wavt", "g.rvf", "g.revf", "g.wvt", "g.wavt", "gr.rvf", "gr.revf", "gr.wvt", "gr.wavt", "rd.", "wr.", "s.new", "g.build"]
GUARD_OPS = ["s.guard", "s.new", "s.sub", "s.off", "s.split", "s.ref", "s.arr", "s.s2a", "s.toslice", "s.refat", "s.gsl"]


def runs_gm(tier, modes, proj=None, chk=True):
    n = 30000 if tier == "quick" else 600000
    out = []
    for i, mode in enumerate(modes):
        k = (60 if tier == "quick" else 1500) if mode == "exhaustive" else n
        r = {"world": "gm", "n": k, "opts": [mode], "seed_off": 100 * i}
        if proj:
            r["proj"] = proj
        out.append(r)
    if chk:
        r = {"world": "gm", "n": n // 3, "opts": [modes[-1]], "profile": "chk", "seed_off": 17}
        if proj:
            r["proj"] = proj
        out.append(r)
    return out


def runs_xen(tier, proj=None, chk=False):
    """guest-memory world in the `xen` feature build: UNIX, foreign, advance-mapped grant and on-demand grant regions through hook H3"""
    r = {"world": "gm", "n": 8000 if tier == "quick" else 300000, "opts": ["xen"], "features": "xen", "seed_off": 31}
    if proj:
        r["proj"] = proj
    out = [r]
    if chk:
        # the same world in a build with overflow checks and debug assertions (C07, C18)
        c = dict(r)
        c.update({"profile": "chk", "n": r["n"] // 2, "seed_off": 37})
        out.append(c)
    return out


def runs_xbuild(tier):
    """region construction and drop in the `xen` feature build against the emulated gntdev/privcmd of hook H3 (C15, C12)"""
    return {"world": "xbuild", "n": 6000 if tier == "quick" else 150000, "features": "xen", "seed_off": 41}


def with_proj(runs, proj):
    for r in runs:
        r["proj"] = proj
    return runs


PROPS.update({
    "C02": {
        "modules": ["VmMem.Props.C02", "VmMem.Props.C02t"], "theorems": T("C02") + T("C02t"),
        "runs": lambda tier: runs_gm(tier, ["exhaustive", "mixed", "edit"], {"ops": QUERY_OPS + ["g.insert", "g.remove"], "drop": ["h=", "d="]}),
        "trusted_base": ["slice::binary_search_by_key contract on a slice strictly sorted by key (model parameter `bsearch`; exercised)"],
        "assumptions": ["regions are built through the safe constructors (non-empty, start+len < 2^64): hypothesis WF, discharged for the mmap backend by C10"],
    },
    "C04": {
        "modules": ["VmMem.Props.C04"], "theorems": T("C04"),
        "runs": lambda tier: with_proj(runs_slice(tier), {"drop": ["d="]}) + runs_gm(tier, ["mixed"], {"ops": ["gr.", "g.build", "g.region", "g.begin"], "drop": ["d="]}, chk=False),
        "trusted_base": ["ptr::copy is memmove, copy_nonoverlapping / read_volatile / write_volatile move exactly the bytes named",
                         "ByteValued: a value is its byte representation"],
        "assumptions": ["the compiler's treatment of mixing volatile and non-volatile accesses (the source's own FIXME) is outside the model"],
    },
    "C05": {
        "modules": ["VmMem.Props.C05", "VmMem.Props.C05h"], "theorems": T("C05") + T("C05h"),
        "runs": lambda tier: runs_slice(tier, streams=True) + runs_gm(tier, ["mixed"], chk=False),
        "trusted_base": ["C09 (bitmap refines a page set)", "writes through raw pointers/references are exempt by the statement"],
        "assumptions": ["the bitmap covers the container (byte_size >= offset + len), as the region constructors arrange"],
    },
    "C16": {
        "modules": ["VmMem.Props.C16"], "theorems": T("C16"),
        # (the schedule scenarios of the atomic world are included: a page that turns dirty again after a harvest without a
        #  write is an over-mark, even if it takes a race between a write and the harvest to produce it)
        "runs": lambda tier: runs_slice(tier, streams=True) + runs_gm(tier, ["mixed"], chk=False)
        + [{"world": "atomic", "n": 1000 if tier == "quick" else 20000, "opts": [] if tier == "quick" else ["thorough"], "proj": {"ops": ["none"]}}],
        "trusted_base": ["C09 (bitmap refines a page set)"],
        "assumptions": ["precision is relative to the byte count the operation reports"],
    },
    "C10": {
        "modules": ["VmMem.Props.C10"], "theorems": T("C10"),
        "runs": lambda tier: runs_gm(tier, ["edit"], {"ops": EDIT_OPS, "drop": ["h=", "d="]}),
        "trusted_base": ["Vec::sort_by_key is a stable sort; Vec<Arc<_>>::clone shares the regions; &self methods cannot mutate the old map (exercised: every earlier map is re-observed after each step)"],
        "assumptions": [],
    },
    "C13": {
        "modules": ["VmMem.Props.C13"], "theorems": T("C13"),
        "runs": lambda tier: with_proj(runs_slice(tier, streams=True), {"ops": STREAM_OPS, "drop": ["d="]}),
        "trusted_base": ["the std model (Read for &[u8], Write for &mut [u8]/Vec, Cursor) is transcribed from the std documentation",
                         "descriptors: one read(2)/write(2) per call, same syscall as std"],
        "assumptions": ["after a FAILED exact transfer the stream position is not compared with std (std leaves it unspecified)"],
    },
    "C14": {
        "modules": ["VmMem.Props.C14", "VmMem.Props.C14g"], "theorems": T("C14") + T("C14g"),
        "runs": lambda tier: with_proj(runs_slice(tier, streams=True), {"ops": STREAM_OPS}) + runs_gm(tier, ["mixed"], {"ops": STREAM_OPS}, chk=False),
        "trusted_base": ["the scripted stream of the harness obeys its script"],
        "assumptions": ["scripts are finite; an exhausted script behaves as `full`"],
    },
    "C17": {
        "modules": ["VmMem.Props.C17", "VmMem.Props.C17x"], "theorems": T("C17") + T("C17x"),
        "runs": lambda tier: with_proj(runs_slice(tier), {"ops": GUARD_OPS, "drop": ["h=", "d="]}) + runs_xen(tier),
        "trusted_base": ["Xen gntdev/privcmd ioctls and mmap (kernel), emulated by hook H3: grant reference r = file offset r*4096; page size from sysconf"],
        "assumptions": ["PARTIAL: the on-demand half is proved over the window model (VmMem/Model/Xen.lean) and tied by the xen-feature run through emulated ioctls (every touched byte range must lie in a window requested during the op, "
                        "every window released); what the real gntdev maps is the kernel's"],
    },
    "C18": {
        "modules": ["VmMem.Props.C18", "VmMem.Props.C18g"], "theorems": T("C18") + T("C18g"),
        "runs": lambda tier: runs_slice(tier, streams=True) + runs_gm(tier, ["mixed"], chk=True) + runs_xen(tier, chk=True),
        "trusted_base": [],
        "assumptions": ["Xen advance / on-demand regions are exercised through hook H3 (xen-feature build, release and overflow-checked profiles)"],
    },
    "C03": {
        "modules": ["VmMem.Props.C03"], "theorems": T("C03"),
        "runs": lambda tier: runs_gm(tier, ["mixed", "edit"], {"drop": ["d="]}) + (runs_xen(tier, {"drop": ["d="]}) if tier == "thorough" else []),
        "trusted_base": ["C02 (address resolution), C04 (container data effect)", "kernel page-cache coherence of file mappings (observed, not proved)"],
        "assumptions": ["layouts built through the safe constructors (WF); custom GuestMemory implementations with a region ending at 2^64 are outside the quantifier (no_wrap shows the wrap branch is dead under WF)"],
    },
    "C06": {
        "modules": ["VmMem.Props.C06"], "theorems": T("C06"),
        "runs": lambda tier: [{"world": "copy", "n": 3000 if tier == "quick" else 200000, "opts": [] if tier == "quick" else ["tear"]}]
        # the atomic load/store of every atomic type (user-defined packed ones included) at every base alignment: slice world
        + [{"world": "slice", "n": 30000 if tier == "quick" else 600000, "opts": [], "seed_off": 23,
            "proj": {"ops": ["s.store", "s.load", "s.aref", "s.new", "s.sub", "s.off", "s.split", "s.gsl"], "drop": ["d=", "h="]}}],
        "trusted_base": ["hardware: an aligned 1/2/4/8-byte volatile access is single-copy atomic on x86-64/aarch64 and is not split by the compiler",
                         "AtomicInteger::load/store are std atomics (orderings are std's)", "hook H1 records every copy_single / bulk copy (hooks are add-only, reviewed)"],
        "assumptions": ["PARTIAL for the schedules quantifier: the proof shows exactly one access of the right width; that one access is not torn is a hardware fact; "
                        "the thorough tier adds a two-thread tearing detector as a black-box cross-check"],
    },
    "C08": {
        "modules": ["VmMem.Props.C08"], "theorems": T("C08"),
        "runs": lambda tier: [{"world": "atomic", "n": 3000 if tier == "quick" else 100000, "opts": [] if tier == "quick" else ["thorough"]}],
        "trusted_base": ["SeqCst fetch_or / fetch_and are atomic read-modify-write steps and executions are sequentially consistent interleavings of them (justified by Ordering::SeqCst)",
                         "load(Acquire) returns some value the word held", "hook H2 (AtomicU64 stand-in) forwards to std's AtomicU64"],
        "assumptions": ["PARTIAL: weaker-than-SeqCst hardware effects are outside the model; reset() uses plain stores and is documented as not being a harvest (resetProgram_all_store)"],
    },
    "C11": {
        "modules": ["VmMem.Props.C11"], "theorems": T("C11"),
        "runs": lambda tier: [{"world": "amem", "n": 6000 if tier == "quick" else 300000, "opts": [] if tier == "quick" else ["stress"]}],
        "trusted_base": ["ArcSwap::load/store are atomic and return/replace whole Arc<M> values; Mutex gives mutual exclusion; Arc frees exactly when the last reference goes",
                         "replace(self, map) stores before the exclusive guard (self) is dropped (statement order in atomic.rs)"],
        "assumptions": ["PARTIAL for the schedules quantifier: the theorem quantifies over all interleavings of the model's atomic steps; that the real ArcSwap/Mutex steps are atomic is trusted. "
                        "The correspondence run is sequential; the thorough tier adds a reader/updater stress on real threads"],
    },
    "C12": {
        "modules": ["VmMem.Props.C12", "VmMem.Props.C15x", "VmMem.Props.C12x"], "theorems": T("C12") + [t for t in T("C15x") if "drop" in t] + T("C12x"),
        "runs": lambda tier: [{"world": "life", "n": 2500 if tier == "quick" else 60000}, runs_xbuild(tier)]
        + with_proj(runs_xen(tier), {"ops": ["none"]}),   # the temporary windows of on-demand Xen regions are mappings too: oracle only
        "corpus": True,
        "trusted_base": ["Arc drops its value exactly when the last reference goes; munmap/mmap are the kernel's; /proc/self/maps reflects the mappings",
                         "rustc's borrow checker (programs quantifier)"],
        "assumptions": ["PARTIAL: histories are proved over the ownership model and tied by /proc/self/maps observations; 'an escaping accessor must not compile' is decided by a corpus of 32 escaping programs "
                        "(all must be rejected with a borrow/lifetime error) and 8 controls, i.e. by testing a corpus, not by a theorem"],
    },
    "C15": {
        "modules": ["VmMem.Props.C15", "VmMem.Props.C15x"], "theorems": T("C15") + T("C15x"),
        "runs": lambda tier: [{"world": "build", "n": 3000 if tier == "quick" else 60000}, runs_xbuild(tier)],
        "trusted_base": ["the kernel's mmap either fails or maps what was asked (model parameter)", "file mapping coherence is kernel behaviour: observed by the run, not proved"],
        "assumptions": ["PARTIAL: file coherence is kernel behaviour (observed); the Xen half is proved over the validation model and the system-call model (VmMem/Model/XenBuild.lean) and tied by the xen-feature run through the emulated gntdev/privcmd of hook H3, every flag word 0..0xffff included"],
    },
    "C07": {
        "modules": ["VmMem.Props.C07"], "theorems": T("C07"),
        # the observation that matters is completed-ok / completed-err / panic: compare the first token only
        "runs": lambda tier: runs_slice(tier, streams=True) + runs_gm(tier, ["mixed", "edit"]) + runs_bitmap(tier) + runs_xen(tier, chk=True),
        "trusted_base": ["allocation failure aborts and stack overflow are not modelled", "the constructor invariants (WF layout, bitmap Inv, live root allocation) hold for objects built through the safe API (C09, C10, C15)"],
        "assumptions": ["documented program-logic panics (array index out of range) are stated separately and exactly (documented_panics); VMM-chosen operands are explicit guards: enlarge overflow, zero-length regions, oversized zero-sized-element buffers"],
    },
})
