"""Per-property configuration of ./check: theorem obligations, harness runs, projections."""


def runs_addr(tier):
    n = 20000 if tier == "quick" else 1000000
    return [{"world": "addr", "n": n}, {"world": "addr", "n": n // 4, "profile": "chk", "seed_off": 7}]


def runs_endian(tier):
    return [{"world": "endian", "n": 20000 if tier == "quick" else 100000, "opts": [] if tier == "quick" else ["all32"]}]


def runs_bitmap(tier):
    if tier == "quick":
        return [{"world": "bitmap", "n": 30000}, {"world": "bitmap", "n": 8000, "profile": "chk", "seed_off": 3}]
    return [{"world": "bitmap", "n": 400000, "opts": ["exhaustive"]}, {"world": "bitmap", "n": 100000, "profile": "chk", "seed_off": 3}]


import json, os
_THMS = json.load(open(os.path.join(os.path.dirname(os.path.dirname(os.path.abspath(__file__))), "lean", "theorems.json")))


def T(pid):
    return _THMS.get(pid, [])


def runs_slice(tier, streams=False):
    n = 60000 if tier == "quick" else 1500000
    o = ["streams"] if streams else []
    return [{"world": "slice", "n": n, "opts": o}, {"world": "slice", "n": n // 3, "opts": o, "profile": "chk", "seed_off": 11}]


DERIVE_OPS = ["s.sub", "s.gsl", "s.off", "s.split", "s.ref", "s.arr", "s.s2a", "s.aref", "s.toslice", "s.refat", "s.guard", "s.new"]

PROPS = {
    "C19": {
        "modules": ["VmMem.Props.C19"],
        "theorems": T("C19"),
        "runs": runs_addr,
        "trusted_base": ["u64 checked_/overflowing_/wrapping intrinsics behave as documented (exercised by the correspondence run and the u128 oracle)"],
        "assumptions": ["64-bit target", "derived Ord/Eq on the address newtypes compare the single field"],
    },
    "C20": {
        "modules": ["VmMem.Props.C20"],
        "theorems": T("C20"),
        "runs": runs_endian,
        "trusted_base": ["uN::to_le/to_be/from_le/from_be are the identity or a byte swap depending on the host (model is parametric in the host; "
                         "the correspondence run observes the little-endian case)", "size/alignment equalities are the crate's compile-time const_assert!, observed at run time"],
        "assumptions": ["harness host is little-endian; the big-endian half is covered by the theorems only"],
    },
    "C01": {
        "modules": ["VmMem.Props.C01"],
        "theorems": T("C01"),
        "runs": lambda tier: runs_slice(tier),
        # C01 talks about which accessor (if any) a request yields: compare derivation ops only
        "proj": {"ops": DERIVE_OPS, "drop": ["h=", "d="]},
        "trusted_base": ["the caller-provided root really is a live allocation that does not wrap the address space (unsafe fn new/with_bitmap contract)",
                         "raw-pointer arithmetic ptr.add(off) yields address + off (no provenance model)"],
        "assumptions": ["64-bit target"],
    },
    "C09": {
        "modules": ["VmMem.Props.C09"],
        "theorems": T("C09"),
        "runs": runs_bitmap,
        "trusted_base": ["Vec<AtomicU64> indexing / resize_with semantics", "single-threaded use in this property (C08 covers concurrency)"],
        "assumptions": ["enlarge operands are VMM-chosen: byte_size + additional < 2^64 is a hypothesis of enlarge_spec (overflow is covered by enlarge_overflow)"],
    },
}
