"""Per-property configuration of ./check: theorem obligations, harness runs, projections."""


def runs_addr(tier):
    n = 20000 if tier == "quick" else 1000000
    return [{"world": "addr", "n": n}, {"world": "addr", "n": n // 4, "profile": "chk", "seed_off": 7}]


def runs_endian(tier):
    return [{"world": "endian", "n": 20000 if tier == "quick" else 100000, "opts": [] if tier == "quick" else ["all32"]}]


def runs_bitmap(tier):
    if tier == "quick":
        return [{"world": "bitmap", "n": 30000}, {"world": "bitmap", "n": 8000, "profile": "chk", "seed_off": 3}]
    return [{"world": "bitmap", "n": 400000, "opts": ["exhaustive"]}, {"world": "bitmap", "n": 100000, "profile": "chk", "seed_off": 3}]


C19_THMS = """checkedAdd_iff checkedAdd_val checkedAdd_none_iff checkedSub_iff checkedSub_val checkedOffsetFrom_iff
checkedOffsetFrom_val overflowingAdd_spec overflowingSub_spec uncheckedAdd_fits uncheckedAdd_overflow_checked
uncheckedAdd_overflow_wrapping uncheckedSub_fits uncheckedSub_underflow_checked uncheckedSub_underflow_wrapping
uncheckedOffsetFrom_eq isPow2_iff checkedAlignUp_panics_iff checkedAlignUp_some checkedAlignUp_none
checkedAlignUp_none_iff_overflow uncheckedAlignUp_eq uncheckedAlignUp_eq_checked mask_raw bitAnd_raw bitOr_raw cmp_spec""".split()

C20_THMS = """leBytes_length ofLeBytes_lt ofLeBytes_leBytes leBytes_ofLeBytes swapBytes_lt swapBytes_involutive wrap_lt
round_trip wire_bytes wire_bytes' eq_native_iff unwrap_wire hostBytes_ofHostBytes""".split()

PROPS = {
    "C19": {
        "modules": ["VmMem.Props.C19"],
        "theorems": ["VmMem.C19." + t for t in C19_THMS],
        "runs": runs_addr,
        "trusted_base": ["u64 checked_/overflowing_/wrapping intrinsics behave as documented (exercised by the correspondence run and the u128 oracle)"],
        "assumptions": ["64-bit target", "derived Ord/Eq on the address newtypes compare the single field"],
    },
    "C20": {
        "modules": ["VmMem.Props.C20"],
        "theorems": ["VmMem.C20." + t for t in C20_THMS],
        "runs": runs_endian,
        "trusted_base": ["uN::to_le/to_be/from_le/from_be are the identity or a byte swap depending on the host (model is parametric in the host; "
                         "the correspondence run observes the little-endian case)", "size/alignment equalities are the crate's compile-time const_assert!, observed at run time"],
        "assumptions": ["harness host is little-endian; the big-endian half is covered by the theorems only"],
    },
}
