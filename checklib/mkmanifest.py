#!/usr/bin/env python3
"""Regenerates MANIFEST.json from checklib/props.py + checklib/manifest_meta.py (kept valid at all times)."""
import json, os, sys
ROOT = os.path.dirname(os.path.dirname(os.path.abspath(__file__)))
sys.path.insert(0, os.path.join(ROOT, "checklib"))
from props import PROPS
from manifest_meta import META, HOOKS, NOT_YET

all_ids = [json.loads(l)["id"] for l in open(os.path.join(ROOT, "properties.jsonl"))]
checks = []
for pid in all_ids:
    if pid not in PROPS:
        continue
    m = META[pid]
    checks.append({
        "property_id": pid,
        "quick_cmd": "./check %s --tier quick" % pid,
        "thorough_cmd": "./check %s --tier thorough" % pid,
        "evidence_file": "/verif/evidence/%s.json" % pid,
        "replay_cmd_template": "./check %s --replay {path}" % pid,
        "engine": "lean+vmdriver+vmverif",
        "level_claimed": {"category": m.get("category", "proof"), "text": m["text"], "design_ref": m["design_ref"]},
        "level_note": m["note"],
        "technique": m["technique"],
    })
man = {
    "version": 1,
    "setup_cmd": "./check --setup",
    "hooks": HOOKS,
    "engines": [
        {"name": "lean", "path": "/verif/lean/VmMem", "serves_properties": sorted(PROPS), "kind_free_text": "Lean 4 model (VmMem/Model), lemmas and property theorems (VmMem/Props), axiom audit"},
        {"name": "vmdriver", "path": "/verif/lean/Driver", "serves_properties": sorted(PROPS), "kind_free_text": "the model's definitions compiled to a native line-protocol executable"},
        {"name": "vmverif", "path": "/verif/harness", "serves_properties": sorted(PROPS), "kind_free_text": "Rust harness running the real crate in-process: generators, op interpreter, property oracles"},
    ],
    "checks": checks,
    "not_applicable": [{"property_id": p, "reason": NOT_YET.get(p, "check not built yet in this session; design in DESIGN.md section 6")} for p in all_ids if p not in PROPS],
    "notes": "Technique family: machine-checked proof in Lean 4 over a hand-written executable model, tied to /repo by a behavioural correspondence run on every check (DESIGN.md).",
}
json.dump(man, open(os.path.join(ROOT, "MANIFEST.json"), "w"), indent=1)
print("checks:", len(checks), "not_applicable:", len(man["not_applicable"]))
