#![allow(unused)]
use vm_memory::{Bytes, ByteValued, GuestAddress, GuestAddressSpace, GuestMemory, GuestMemoryAtomic, GuestMemoryMmap, GuestMemoryRegion, MemoryRegionAddress, MmapRegion, VolatileMemory, VolatileSlice};
use std::sync::atomic::{AtomicU32, Ordering};
type Mem = GuestMemoryMmap<()>;
fn mem() -> Mem { Mem::from_ranges(&[(GuestAddress(0x1000), 0x1000)]).unwrap() }
fn main() {
    let r: &AtomicU32; { let mut buf = [0u32; 4]; let p = buf.as_mut_ptr() as *mut u8; let s = unsafe { VolatileSlice::new(p, 16) }; r = { let mut b2 = [0u8; 16]; let s2 = VolatileSlice::from(&mut b2[..]); s2.get_atomic_ref::<AtomicU32>(0).unwrap() }; } let _ = r.load(Ordering::SeqCst);
}
