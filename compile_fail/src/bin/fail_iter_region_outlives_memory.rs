#![allow(unused)]
use vm_memory::{Bytes, ByteValued, GuestAddress, GuestAddressSpace, GuestMemory, GuestMemoryAtomic, GuestMemoryMmap, GuestMemoryRegion, MemoryRegionAddress, MmapRegion, VolatileMemory, VolatileSlice};
use std::sync::atomic::{AtomicU32, Ordering};
type Mem = GuestMemoryMmap<()>;
fn mem() -> Mem { Mem::from_ranges(&[(GuestAddress(0x1000), 0x1000)]).unwrap() }
fn main() {
    let r; { let m = mem(); r = m.iter().next().unwrap(); } let _ = r.start_addr();
}
