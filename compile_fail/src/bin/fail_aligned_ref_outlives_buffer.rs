#![allow(unused)]
use vm_memory::{Bytes, ByteValued, GuestAddress, GuestAddressSpace, GuestMemory, GuestMemoryAtomic, GuestMemoryMmap, GuestMemoryRegion, MemoryRegionAddress, MmapRegion, VolatileMemory, VolatileSlice};
use std::sync::atomic::{AtomicU32, Ordering};
type Mem = GuestMemoryMmap<()>;
fn mem() -> Mem { Mem::from_ranges(&[(GuestAddress(0x1000), 0x1000)]).unwrap() }
fn main() {
    let r: &u32; { let mut buf = [0u32; 4]; let bytes = unsafe { std::slice::from_raw_parts_mut(buf.as_mut_ptr() as *mut u8, 16) }; let s = VolatileSlice::from(bytes); let s2 = s.subslice(0, 8).unwrap(); r = unsafe { s2.aligned_as_ref::<u32>(0).unwrap() }; drop(s2); } let _ = *r;
}
