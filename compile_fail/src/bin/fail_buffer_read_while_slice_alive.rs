#![allow(unused)]
use vm_memory::{Bytes, ByteValued, GuestAddress, GuestAddressSpace, GuestMemory, GuestMemoryAtomic, GuestMemoryMmap, GuestMemoryRegion, MemoryRegionAddress, MmapRegion, VolatileMemory, VolatileSlice};
use std::sync::atomic::{AtomicU32, Ordering};
type Mem = GuestMemoryMmap<()>;
fn mem() -> Mem { Mem::from_ranges(&[(GuestAddress(0x1000), 0x1000)]).unwrap() }
fn main() {
    let mut buf = [0u8; 16]; let s = VolatileSlice::from(&mut buf[..]); let x = buf[0]; let _ = s.len();
}
