#![allow(unused)]
use vm_memory::{Bytes, ByteValued, GuestAddress, GuestAddressSpace, GuestMemory, GuestMemoryAtomic, GuestMemoryMmap, GuestMemoryRegion, GuestRegionMmap, MemoryRegionAddress, MmapRegion, VolatileMemory, VolatileSlice};
use vm_memory::bitmap::{AtomicBitmap, Bitmap};
use std::sync::atomic::{AtomicU32, Ordering};
type Mem = GuestMemoryMmap<()>;
fn mem() -> Mem { Mem::from_ranges(&[(GuestAddress(0x1000), 0x1000)]).unwrap() }
fn main() {
    let r; { let m = std::sync::Arc::new(mem()); let s = m.get_slice(GuestAddress(0x1000), 64).unwrap(); r = s.get_array_ref::<u32>(0, 4).unwrap(); } let _ = r.load(0);
}
