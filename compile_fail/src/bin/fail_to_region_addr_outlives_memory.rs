#![allow(unused)]
use vm_memory::{Bytes, ByteValued, GuestAddress, GuestAddressSpace, GuestMemory, GuestMemoryAtomic, GuestMemoryMmap, GuestMemoryRegion, GuestRegionMmap, MemoryRegionAddress, MmapRegion, VolatileMemory, VolatileSlice};
use vm_memory::bitmap::{AtomicBitmap, Bitmap};
use std::sync::atomic::{AtomicU32, Ordering};
type Mem = GuestMemoryMmap<()>;
fn mem() -> Mem { Mem::from_ranges(&[(GuestAddress(0x1000), 0x1000)]).unwrap() }
fn main() {
    let (r, a); { let m = mem(); let x = m.to_region_addr(GuestAddress(0x1008)).unwrap(); r = x.0; a = x.1; } let _ = r.len();
}
